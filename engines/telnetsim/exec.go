package telnetsim

import (
	"bytes"
	"context"
	"encoding/json"
	"fmt"
	"net"
	"net/url"
	"strings"
	"testing"
	"time"

	"github.com/la5nta/wl2k-go/transport"
	"github.com/la5nta/wl2k-go/transport/telnet"
	"verif/sim/core"
	"verif/sim/pipe"
	"verif/sim/simnet"
)

const (
	srvAddr     = "rms.sim:8772"
	prompt1     = "Callsign :\r"
	prompt2     = "Password :\r"
	loginBudget = 24 * time.Hour   // simulated
	endBudget   = 5000 * time.Hour // simulated; only spent when something hangs
	maxField    = 1 << 16
	maxPayload  = 1 << 20
)

// cleanCall maps any byte string into the property's callsign domain: no CR,
// no leading/trailing white space (the listener trims; stated narrowing).
func cleanCall(b []byte) string {
	if len(b) > maxField {
		b = b[:maxField]
	}
	return strings.TrimSpace(strings.ReplaceAll(string(b), "\r", ""))
}

func cleanPass(b []byte) string {
	if len(b) > maxField {
		b = b[:maxField]
	}
	return strings.ReplaceAll(string(b), "\r", "")
}

func clampInt(v, lo, hi int) int {
	if v < lo {
		return lo
	}
	if v > hi {
		return hi
	}
	return v
}

func us(v int) time.Duration {
	return time.Duration(clampInt(v, 0, 3600_000_000)) * time.Microsecond
}

// sleepU sleeps until a simulated instant no other environment event uses.
func sleepU(sim *core.Sim, d time.Duration) {
	if d < 0 {
		d = 0
	}
	at := sim.Reserve(sim.Now() + d)
	time.Sleep(at - sim.Now())
}

func abbrev(b []byte, n int) string {
	if len(b) <= n {
		return fmt.Sprintf("%q", b)
	}
	return fmt.Sprintf("%q...(%d bytes)", b[:n], len(b))
}

// dialSpec is the library call of a run and the deadline the property attaches to it.
type dialSpec struct {
	fn      func() (net.Conn, error)
	timeout time.Duration // 0: the call has neither timeout nor deadline
	desc    string
}

func telnetURL(sim *core.Sim, call, pass string, param time.Duration) *transport.URL {
	raw := "telnet://" + url.UserPassword(call, pass).String() + "@" + srvAddr + "/wl2k"
	if param > 0 {
		raw += fmt.Sprintf("?dial_timeout=%dms", param.Milliseconds())
	}
	u, err := transport.ParseURL(raw)
	ok := err == nil && u != nil && u.User != nil && u.User.Username() == call && u.Host == srvAddr
	if ok {
		pw, _ := u.User.Password()
		ok = pw == pass
	}
	if !ok {
		// URL fidelity is C19's business; keep C15 going with a hand-made URL.
		sim.Probe("url-roundtrip-differs")
		u = &transport.URL{Scheme: "telnet", Host: srvAddr, User: url.UserPassword(call, pass), Target: "WL2K", Digis: []string{}, Params: url.Values{}}
		if param > 0 {
			u.Params.Set("dial_timeout", fmt.Sprintf("%dms", param.Milliseconds()))
		}
	}
	return u
}

func minPos(a, b time.Duration) time.Duration {
	switch {
	case a <= 0:
		return b
	case b <= 0:
		return a
	case a < b:
		return a
	}
	return b
}

// makeDial turns the plan's API choice into a closure. needDeadline: hostile
// servers are only meaningful for calls that have a deadline.
func makeDial(sim *core.Sim, p *Plan, call, pass string, needDeadline bool) dialSpec {
	T := time.Duration(clampInt(p.TimeoutMs, 0, 3600_000)) * time.Millisecond
	if T <= 0 {
		T = 10 * time.Second
	}
	C := time.Duration(clampInt(p.CtxMs, 0, 3600_000)) * time.Millisecond
	api := p.API
	if needDeadline && api == "ctx-none" {
		api = "ctx-timeout"
	}
	libDefault := 30 * time.Second // telnet.DefaultDialer.Timeout
	withCtx := func(f func(ctx context.Context) (net.Conn, error)) func() (net.Conn, error) {
		return func() (net.Conn, error) {
			ctx := context.Background()
			if C > 0 {
				var cancel context.CancelFunc
				ctx, cancel = context.WithTimeout(ctx, C)
				defer cancel()
			}
			return f(ctx)
		}
	}
	switch api {
	case "dial":
		return dialSpec{func() (net.Conn, error) { return telnet.Dial(srvAddr, call, pass) }, 5 * time.Second, "telnet.Dial"}
	case "dialtimeout":
		return dialSpec{func() (net.Conn, error) { return telnet.DialTimeout(srvAddr, call, pass, T) }, T, fmt.Sprintf("telnet.DialTimeout(%v)", T)}
	case "ctx-deadline":
		return dialSpec{func() (net.Conn, error) {
			ctx, cancel := context.WithDeadline(context.Background(), time.Now().Add(T))
			defer cancel()
			return telnet.DialContext(ctx, srvAddr, call, pass)
		}, T, fmt.Sprintf("telnet.DialContext(WithDeadline now+%v)", T)}
	case "ctx-none":
		return dialSpec{func() (net.Conn, error) { return telnet.DialContext(context.Background(), srvAddr, call, pass) }, 0, "telnet.DialContext(Background)"}
	case "dialer-url", "dialer-urlctx":
		d := telnet.Dialer{Timeout: T}
		var param time.Duration
		if p.Param {
			d.Timeout, param = libDefault, T
		}
		u := telnetURL(sim, call, pass, param)
		if api == "dialer-url" {
			return dialSpec{func() (net.Conn, error) { return d.DialURL(u) }, T, fmt.Sprintf("telnet.Dialer{%v}.DialURL(dial_timeout=%v)", d.Timeout, param)}
		}
		return dialSpec{withCtx(func(ctx context.Context) (net.Conn, error) { return d.DialURLContext(ctx, u) }), minPos(T, C),
			fmt.Sprintf("telnet.Dialer{%v}.DialURLContext(ctx %v, dial_timeout=%v)", d.Timeout, C, param)}
	case "transport-url", "transport-urlctx":
		eff, param := libDefault, time.Duration(0)
		if p.Param {
			eff, param = T, T
		}
		u := telnetURL(sim, call, pass, param)
		if api == "transport-url" {
			return dialSpec{func() (net.Conn, error) { return transport.DialURL(u) }, eff, fmt.Sprintf("transport.DialURL(telnet://, dial_timeout=%v)", param)}
		}
		return dialSpec{withCtx(func(ctx context.Context) (net.Conn, error) { return transport.DialURLContext(ctx, u) }), minPos(eff, C),
			fmt.Sprintf("transport.DialURLContext(ctx %v, telnet://, dial_timeout=%v)", C, param)}
	}
	// default: ctx-timeout
	return dialSpec{func() (net.Conn, error) {
		ctx, cancel := context.WithTimeout(context.Background(), T)
		defer cancel()
		return telnet.DialContext(ctx, srvAddr, call, pass)
	}, T, fmt.Sprintf("telnet.DialContext(WithTimeout %v)", T)}
}

// side is what the harness knows about one end of a logged-in connection.
type side struct {
	name    string
	conn    net.Conn
	err     error
	startAt time.Duration
	loginAt time.Duration
	logged  chan struct{} // closed when the login call returned
	got     []byte
	rd      *core.GoResult
	wrErr   error
	wrote   int
}

func newSide(name string) *side { return &side{name: name, logged: make(chan struct{})} }

func (s *side) returned() bool {
	select {
	case <-s.logged:
		return true
	default:
		return false
	}
}

func (s *side) loginReturned(sim *core.Sim, c net.Conn, err error) {
	s.conn, s.err, s.loginAt = c, err, sim.Now()
	sim.Logf("%s login returned err=%v", s.name, err != nil)
	close(s.logged)
}

func startReader(sim *core.Sim, name string, c net.Conn, bufs []int, got *[]byte) *core.GoResult {
	return core.Go(func() {
		for i := 0; ; i++ {
			buf := make([]byte, clampInt(core.TapeAt(bufs, i, 4096), 1, 1<<16))
			n, err := c.Read(buf)
			*got = append(*got, buf[:n]...)
			if err != nil {
				sim.Logf("%s reader ends after %d bytes", name, len(*got))
				return
			}
		}
	})
}

// writeStream hands the data over in the plan's Write calls.
func writeStream(sim *core.Sim, name string, c net.Conn, st Stream) (int, error) {
	data := []byte(st.Data)
	if len(data) > maxPayload {
		data = data[:maxPayload]
	}
	total := 0
	for i := 0; len(data) > 0; i++ {
		sz := core.TapeAt(st.Chunks, i, 0)
		if sz <= 0 || sz > len(data) {
			sz = len(data)
		}
		if d := us(core.TapeAt(st.DelayUs, i, 0)); d > 0 {
			sleepU(sim, d)
		}
		n, err := c.Write(data[:sz])
		total += n
		if err != nil || n != sz {
			sim.Logf("%s write #%d failed after %d bytes", name, i, total)
			if err == nil {
				err = fmt.Errorf("short write %d of %d", n, sz)
			}
			return total, err
		}
		data = data[sz:]
	}
	sim.Logf("%s wrote %d payload bytes", name, total)
	return total, nil
}

// transfer is what the application does with a logged-in connection: read
// everything, write the plan's stream.
func (s *side) transfer(sim *core.Sim, p *Plan, send Stream, recvBufs []int, both chan struct{}) {
	s.rd = startReader(sim, s.name, s.conn, recvBufs, &s.got)
	if p.Quiet {
		<-both
		sleepU(sim, us(p.QuietUs)+time.Millisecond)
	}
	s.wrote, s.wrErr = writeStream(sim, s.name, s.conn, send)
}

func waitCh(budget time.Duration, chs ...chan struct{}) bool {
	t := time.NewTimer(budget)
	defer t.Stop()
	for _, c := range chs {
		select {
		case <-c:
		case <-t.C:
			return false
		}
	}
	return true
}

// wire collects what the taps see.
type wire struct {
	sim        *core.Sim
	l1, l      int // client->server: end of callsign line, end of password line
	ab, ba     int
	links      []*pipe.Link
	abAtAccept int
	startDial  time.Duration
	seen       map[string]bool
	dead       bool
}

func (w *wire) attach(l *pipe.Link) {
	w.links = append(w.links, l)
	if w.dead {
		l.Kill() // the run is being wound up: nothing may block on a late link
	}
	l.Tap(func(p []byte) {
		a, b := w.ab, w.ab+len(p)
		w.ab = b
		switch {
		case a < w.l && b > w.l:
			w.seen["c2s-payload-in-same-segment-as-password-line"] = true
		case a < w.l1 && b > w.l1:
			w.seen["c2s-callsign-and-password-line-share-a-segment"] = true
		}
		if (a > 0 && a < w.l1) || (a > w.l1 && a < w.l) {
			w.seen["c2s-login-line-split"] = true
		}
	}, func(p []byte) {
		a, b := w.ba, w.ba+len(p)
		w.ba = b
		n1, n2 := len(prompt1), len(prompt1)+len(prompt2)
		if (a > 0 && a < n1) || (a > n1 && a < n2) {
			w.seen["s2c-prompt-split"] = true
		}
		if a < n2 && b > n2 {
			w.seen["s2c-payload-in-same-segment-as-password-prompt"] = true
		}
	})
}

// flush turns the per-run observations into probe counts (one per run).
func (w *wire) flush() {
	for _, k := range core.SortedKeys(w.seen) {
		w.sim.Probe(k)
	}
}

func (w *wire) kill() {
	w.dead = true
	for _, l := range w.links {
		l.Kill()
	}
}

// settle waits (simulated) until everything written on every link was delivered.
func (w *wire) settle(sent func() (ab, ba int)) {
	step := time.Millisecond
	for waited := time.Duration(0); waited < endBudget/2; waited += step {
		wantAB, wantBA := sent()
		if w.ab >= wantAB && w.ba >= wantBA {
			break
		}
		time.Sleep(step)
		if step < time.Minute {
			step *= 2
		}
	}
	time.Sleep(10 * time.Millisecond)
}

type run struct {
	sim  *core.Sim
	p    *Plan
	prop string
	out  *core.Outcome
	call string
	pass string
	w    *wire
	n    *simnet.Net
}

func (r *run) newNet() {
	r.n = simnet.New(r.sim)
	// C15 has no link-fault arm ("TCP": reliable stream): only the schedule
	// part of the link plan is used.
	lp := r.p.Link
	lp.Cut, lp.AB.Edits, lp.BA.Edits = nil, nil, nil
	r.n.LinkPlan = func(string, int) pipe.Plan { return lp }
	cd := us(r.p.ConnectUs)
	if cd <= 0 {
		cd = time.Millisecond
	}
	if r.p.Arm == "ls" && r.p.Server.Kind == "connect-hang" {
		cd = endBudget / 4
	}
	r.n.ConnectDelay = func(string, int) time.Duration { return cd }
	r.w = &wire{sim: r.sim, l1: len(r.call) + 1, l: len(r.call) + len(r.pass) + 2, seen: map[string]bool{}}
	r.n.OnLink = func(_ string, _ int, l *pipe.Link) { r.w.attach(l) }
	simnet.Use(r.n)
}

func (r *run) regime() string {
	if r.p.Quiet {
		return "quiet-start"
	}
	return "login"
}

// checkStream is the stream clause: what one side read after login is what
// the other side wrote after login, complete and in order.
func (r *run) checkStream(dir, arm string, want, got []byte, note string) {
	if bytes.Equal(want, got) {
		return
	}
	kind := "bytes-differ"
	switch {
	case len(got) < len(want) && bytes.HasSuffix(want, got):
		kind = "bytes-lost" // the head of the stream is missing
	case len(got) < len(want) && bytes.HasPrefix(want, got):
		kind = "stream-truncated"
	case len(got) > len(want) && bytes.HasSuffix(got, want):
		kind = "extra-bytes-before-stream"
	case len(got) > len(want) && bytes.HasPrefix(got, want):
		kind = "extra-bytes-after-stream"
	}
	first := 0
	for first < len(want) && first < len(got) && want[first] == got[first] {
		first++
	}
	r.sim.Violate(r.prop, "stream", fmt.Sprintf("%s-%s-after-%s/%s", dir, kind, r.regime(), arm),
		"%s: the sender wrote %d bytes after login, the receiver read %d (%d missing); first difference at offset %d; wrote %s, read %s. %s",
		dir, len(want), len(got), len(want)-len(got), first, abbrev(want, 48), abbrev(got, 48), note)
}

func (r *run) checkRemoteCall(c net.Conn, arm string) {
	rc, ok := c.(interface{ RemoteCall() string })
	if !ok {
		r.sim.Violate(r.prop, "remote-call", "accepted-conn-has-no-RemoteCall/"+arm, "the accepted connection (%T) does not report a remote call", c)
		return
	}
	if got := rc.RemoteCall(); got != r.call {
		r.sim.Violate(r.prop, "remote-call", "differs-from-dialled-callsign/"+arm, "RemoteCall()=%q, dialled callsign %q", got, r.call)
	}
}

// checkDeadline is the deadline clause for a dial that was started at start.
func (r *run) checkDeadline(spec dialSpec, cli *side, note string) {
	if spec.timeout <= 0 {
		return
	}
	if cli.returned() && cli.loginAt-cli.startAt <= spec.timeout+time.Second {
		return
	}
	phase := "during-login"
	if len(r.w.links) == 0 {
		phase = "during-connect"
	}
	took := "had not returned"
	if cli.returned() {
		took = fmt.Sprintf("returned only after %v", cli.loginAt-cli.startAt)
	}
	r.sim.Violate(r.prop, "deadline", "dial-did-not-return-"+phase,
		"%s started at %v with deadline/timeout %v %s when the simulated clock reached deadline + 1 s. %s", spec.desc, cli.startAt, spec.timeout, took, note)
}

// closeDown ends a transfer: one side closes, the other reads until EOF.
func (r *run) closeDown(cli, srv *side, cliClose, srvClose func()) {
	type end struct {
		s     *side
		close func()
	}
	a, b := end{cli, cliClose}, end{srv, srvClose}
	if r.p.CloseFirst == "server" {
		a, b = b, a
	}
	a.close()
	if a.s.rd != nil {
		core.WaitAll(time.Hour, a.s.rd)
	}
	r.w.settle(func() (int, int) { return 0, 0 })
	if b.s.rd != nil && !core.WaitAll(time.Hour, b.s.rd) {
		r.sim.Probe("eof-not-seen-after-peer-close")
	}
	b.close()
	if b.s.rd != nil {
		core.WaitAll(time.Hour, b.s.rd)
	}
}

// ---------------------------------------------------------------- arm ll / cl

// execListener runs arms "ll" (library dialler) and "cl" (scripted client)
// against the library's listener.
func (r *run) execListener() {
	p, sim := r.p, r.sim
	arm := "lib-dialler+lib-listener"
	if p.Arm == "cl" {
		arm = "model-client+lib-listener"
	}
	ln, err := telnet.Listen(srvAddr)
	if err != nil {
		r.out.Violate(r.prop, "harness", "listen-failed", err.Error())
		return
	}
	srv, cli := newSide("server"), newSide("client")
	both := make(chan struct{})
	gs := core.Go(func() {
		if d := us(p.AcceptDelayUs); d > 0 {
			sleepU(sim, d)
		}
		srv.startAt = sim.Now()
		c, err := ln.Accept()
		r.w.abAtAccept = r.w.ab
		srv.loginReturned(sim, c, err)
		if err != nil || c == nil {
			return
		}
		srv.transfer(sim, p, p.S2C, p.C2S.ReadBuf, both)
	})
	var spec dialSpec
	var gc *core.GoResult
	var cm *clientModel
	if p.Arm == "cl" {
		cm = newClientModel(r, cli, both)
		gc = core.Go(cm.run)
	} else {
		spec = makeDial(sim, p, r.call, r.pass, false)
		gc = core.Go(func() {
			sleepU(sim, us(p.DialDelayUs))
			cli.startAt = sim.Now()
			c, err := spec.fn()
			cli.loginReturned(sim, c, err)
			if err != nil || c == nil {
				return
			}
			cli.transfer(sim, p, p.C2S, p.S2C.ReadBuf, both)
		})
	}
	okLogin := waitCh(loginBudget, srv.logged, cli.logged)
	close(both)
	deadlineHit := p.Arm == "ll" && cli.returned() && cli.err != nil && spec.timeout > 0 && cli.loginAt-cli.startAt >= spec.timeout
	good := okLogin && srv.err == nil && cli.err == nil && srv.conn != nil && (cm != nil || cli.conn != nil)
	if !good {
		switch {
		case deadlineHit:
			// the property allows an error at the deadline
			sim.Probe("dial-deadline-reached-with-conforming-peer")
		case !okLogin:
			sim.Violate(r.prop, "login", "did-not-complete/"+arm, "login did not complete within %v simulated: dial returned=%v, Accept returned=%v", loginBudget, cli.returned(), srv.returned())
		case cli.err != nil:
			sim.Violate(r.prop, "login", "dial-failed/"+arm, "dialling the package's listener failed after %v: %v", cli.loginAt-cli.startAt, cli.err)
		default:
			sim.Violate(r.prop, "login", "accept-failed/"+arm, "Accept failed although the dialler logged in: %v", srv.err)
		}
		if p.Arm == "ll" {
			r.checkDeadline(spec, cli, "Peer: the package's own listener.")
		}
		r.w.kill()
		ln.Close()
		core.WaitAll(endBudget, gs, gc)
		r.closeAll(cli, srv, cm)
		r.checkPanics(gs, gc, cli.rd, srv.rd)
		return
	}
	if p.Arm == "ll" {
		r.checkDeadline(spec, cli, "Peer: the package's own listener.")
	}
	sim.Probe("logins-completed")
	if r.w.abAtAccept > r.w.l {
		sim.Probe("c2s-payload-delivered-before-accept-returned")
	}
	core.WaitAll(endBudget, gs, gc)
	r.w.settle(func() (int, int) { return r.w.l + cli.wrote, len(prompt1) + len(prompt2) + srv.wrote })
	if spec.timeout > 0 && sim.Now() > cli.startAt+spec.timeout {
		sim.Probe("transfer-continued-past-dial-deadline")
	}
	cliClose := func() {
		if cm != nil {
			cm.end.Close()
		} else {
			cli.conn.Close()
		}
	}
	r.closeDown(cli, srv, cliClose, func() { srv.conn.Close() })
	ln.Close()
	r.checkPanics(gs, gc, cli.rd, srv.rd)

	r.checkRemoteCall(srv.conn, arm)
	for _, s := range []*side{cli, srv} {
		if s.wrErr != nil {
			sim.Violate(r.prop, "stream", s.name+"-write-failed-after-"+r.regime()+"/"+arm, "%s: Write failed after %d bytes on a healthy link: %v", s.name, s.wrote, s.wrErr)
		}
	}
	noteC := fmt.Sprintf("%d bytes of the client's stream (login lines %d bytes) had been delivered to the listener's host when Accept returned.", r.w.abAtAccept, r.w.l)
	if cli.wrErr == nil {
		r.checkStream("client-to-server", arm, clip(p.C2S.Data), srv.got, noteC)
	}
	if srv.wrErr == nil {
		r.checkStream("server-to-client", arm, clip(p.S2C.Data), cli.got, "")
	}
	if len(p.C2S.Data) > 0 {
		sim.Probe("c2s-payload-runs")
	}
	if len(p.S2C.Data) > 0 {
		sim.Probe("s2c-payload-runs")
	}
	r.out.NonTrivial = len(p.C2S.Data)+len(p.S2C.Data) > 0
}

func (r *run) checkPanics(gs ...*core.GoResult) {
	for _, g := range gs {
		if g != nil && g.Panic != nil {
			r.sim.Violate(r.prop, "panic", core.PanicClass(g.Panic)+"@"+core.RepoFrame(g.Stack), "panic: %v\n%s", g.Panic, g.Stack)
		}
	}
}

func clip(b []byte) []byte {
	if len(b) > maxPayload {
		return b[:maxPayload]
	}
	return b
}

func (r *run) closeAll(cli, srv *side, cm *clientModel) {
	if cli.conn != nil {
		cli.conn.Close()
	}
	if srv.conn != nil {
		srv.conn.Close()
	}
	if cm != nil && cm.end != nil {
		cm.end.Close()
	}
	for _, s := range []*side{cli, srv} {
		if s.rd != nil {
			core.WaitAll(endBudget, s.rd)
		}
	}
	if cm != nil && cm.rd != nil {
		core.WaitAll(endBudget, cm.rd)
	}
}

// ---------------------------------------------------------------- arm ls

func hostileKind(k string) bool {
	switch k {
	case "conform", "eager", "":
		return false
	}
	return true
}

// execServerModel runs the library dialler against the scripted server.
func (r *run) execServerModel() {
	p, sim := r.p, r.sim
	arm := "lib-dialler+model-server"
	hostile := hostileKind(p.Server.Kind)
	spec := makeDial(sim, p, r.call, r.pass, hostile)
	m := newServerModel(r, spec)
	if p.Server.Kind != "refused" {
		r.n.Serve(srvAddr, m.serve)
	}
	cli := newSide("client")
	both := make(chan struct{})

	if hostile {
		sleepU(sim, us(p.DialDelayUs))
		cli.startAt = sim.Now()
		r.w.startDial = cli.startAt
		g := core.Go(func() {
			c, err := spec.fn()
			cli.loginReturned(sim, c, err)
		})
		core.WaitAll(spec.timeout+time.Second, g)
		r.checkDeadline(spec, cli, fmt.Sprintf("Server behaviour: %s (%d bytes sent by the server so far).", p.Server.Kind, r.w.ba))
		if cli.returned() {
			if cli.err != nil {
				sim.Probe("hostile-dial-returned-error")
			} else {
				sim.Probe("hostile-dial-returned-conn")
			}
		}
		sim.Fault("server-" + p.Server.Kind)
		r.out.NonTrivial = true
		close(m.stop)
		close(both)
		r.w.kill()
		core.WaitAll(endBudget, g)
		if cli.conn != nil {
			cli.conn.Close()
		}
		m.wait()
		r.checkPanics(g)
		return
	}

	gc := core.Go(func() {
		sleepU(sim, us(p.DialDelayUs))
		cli.startAt = sim.Now()
		c, err := spec.fn()
		cli.loginReturned(sim, c, err)
		if err != nil || c == nil {
			return
		}
		cli.transfer(sim, p, p.C2S, p.S2C.ReadBuf, both)
	})
	m.both = both
	okLogin := waitCh(loginBudget, cli.logged, m.logged)
	close(both)
	deadlineHit := cli.returned() && cli.err != nil && spec.timeout > 0 && cli.loginAt-cli.startAt >= spec.timeout
	if !okLogin || cli.err != nil || cli.conn == nil {
		switch {
		case deadlineHit:
			sim.Probe("dial-deadline-reached-with-conforming-peer")
		case !okLogin:
			sim.Violate(r.prop, "login", "did-not-complete/"+arm, "login did not complete within %v simulated: dial returned=%v, server model saw the password line=%v", loginBudget, cli.returned(), m.isLogged())
		default:
			sim.Violate(r.prop, "login", "dial-failed/"+arm, "dialling a conforming server failed after %v: %v", cli.loginAt-cli.startAt, cli.err)
		}
		r.checkDeadline(spec, cli, "Server behaviour: conforming.")
		close(m.stop)
		r.w.kill()
		core.WaitAll(endBudget, gc)
		if cli.conn != nil {
			cli.conn.Close()
		}
		if cli.rd != nil {
			core.WaitAll(endBudget, cli.rd)
		}
		m.wait()
		r.checkPanics(gc, cli.rd)
		return
	}
	r.checkDeadline(spec, cli, "Server behaviour: conforming.")
	sim.Probe("logins-completed")
	core.WaitAll(endBudget, gc)
	waitCh(endBudget, m.wrDone)
	r.w.settle(func() (int, int) { return r.w.l + cli.wrote, m.sent })
	if spec.timeout > 0 && sim.Now() > cli.startAt+spec.timeout {
		sim.Probe("transfer-continued-past-dial-deadline")
	}
	srv := &side{name: "server", rd: m.rd}
	r.closeDown(cli, srv, func() { cli.conn.Close() }, func() { m.end.Close() })
	close(m.stop)
	m.wait()
	r.checkPanics(gc, cli.rd)

	// what the server model received during login is the analogue of RemoteCall
	if string(m.callLine) != r.call {
		sim.Violate(r.prop, "remote-call", "callsign-line-differs-from-dialled-callsign/"+arm, "the server received callsign line %q, dialled callsign %q", m.callLine, r.call)
	}
	if string(m.passLine) != r.pass {
		sim.Violate(r.prop, "login", "password-line-differs-from-dialled-password/"+arm, "the server received password line %q, dialled password %q", m.passLine, r.pass)
	}
	if cli.wrErr != nil {
		sim.Violate(r.prop, "stream", "client-write-failed-after-"+r.regime()+"/"+arm, "client: Write failed after %d bytes on a healthy link: %v", cli.wrote, cli.wrErr)
	} else {
		r.checkStream("client-to-server", arm, clip(p.C2S.Data), m.got, "")
	}
	if p.Server.Kind == "eager" {
		// Outside the property (a server must not send post-login data before it
		// has the password line); evidence only.
		sim.Probe("eager-server-runs")
		if !bytes.Equal(clip(p.S2C.Data), cli.got) {
			sim.Probe("eager-server-bytes-lost-by-dialler")
			sim.Logf("eager server: dialler lost %d of %d bytes", len(clip(p.S2C.Data))-len(cli.got), len(clip(p.S2C.Data)))
		}
	} else if m.wrErr == nil {
		r.checkStream("server-to-client", arm, clip(p.S2C.Data), cli.got, "")
	}
	r.out.NonTrivial = len(p.C2S.Data)+len(p.S2C.Data) > 0
}

// ---------------------------------------------------------------- entry

type sample struct {
	Arm, Kind, API       string
	TimeoutMs            int
	Call, Pass           string
	C2S, S2C             int
	Quiet                bool
	SegAB, SegBA         []int
	LatAB, LatBA         []int
	CoalesceAB, CoalesBA []int
}

func short(xs []int) []int {
	if len(xs) > 8 {
		return xs[:8]
	}
	return xs
}

func execute(t *testing.T, prop string, raw json.RawMessage, trace bool) core.Outcome {
	var p Plan
	var out core.Outcome
	if err := json.Unmarshal(raw, &p); err != nil {
		out.Violate(prop, "harness", "bad-plan", fmt.Sprint("unusable plan: ", err))
		return out
	}
	leak, pv, stack := core.Bubble(t, trace, func(sim *core.Sim) {
		r := &run{sim: sim, p: &p, prop: prop, out: &out, call: cleanCall(p.Call), pass: cleanPass(p.Pass)}
		r.newNet()
		defer simnet.Use(nil)
		sim.Logf("arm=%s kind=%s api=%s call=%d pass=%d c2s=%d s2c=%d", p.Arm, p.Server.Kind, p.API, len(r.call), len(r.pass), len(p.C2S.Data), len(p.S2C.Data))
		switch p.Arm {
		case "ls":
			r.execServerModel()
		case "cl":
			r.execListener()
		default:
			p.Arm = "ll"
			r.execListener()
		}
		kind := ""
		if p.Arm == "ls" {
			kind = p.Server.Kind
		}
		out.Sample = sample{Arm: p.Arm, Kind: kind, API: p.API, TimeoutMs: p.TimeoutMs, Call: abbrev([]byte(r.call), 16), Pass: abbrev([]byte(r.pass), 16),
			C2S: len(p.C2S.Data), S2C: len(p.S2C.Data), Quiet: p.Quiet,
			SegAB: short(p.Link.AB.Seg), SegBA: short(p.Link.BA.Seg), LatAB: short(p.Link.AB.LatUs), LatBA: short(p.Link.BA.LatUs),
			CoalesceAB: short(p.Link.AB.Coalesce), CoalesBA: short(p.Link.BA.Coalesce)}
		sim.Probe("arm-" + p.Arm)
		r.w.flush()
		sim.FillOutcome(&out)
	})
	if pv != nil {
		out.Violate(prop, "harness", "bubble-panic", fmt.Sprintf("%v\n%s", pv, stack))
	}
	if leak {
		out.Violate(prop, "harness", "goroutines-left-blocked", "goroutines were still blocked when the run ended")
	}
	return out
}
