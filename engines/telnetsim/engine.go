// Package telnetsim is the engine behind C15: the real transport/telnet
// dialler and listener on the simulated network.
package telnetsim

import (
	"encoding/json"
	"testing"

	"verif/sim/core"
)

type Engine struct{}

func (Engine) Name() string { return "telnetsim" }

func (Engine) Info(prop string) core.Info {
	if prop != "C15" {
		return core.Info{}
	}
	return core.Info{
		Level: "exploration",
		Rule: "one plan = one telnet login on the simulated network in one of three arms: (ll) the library's Dial*/DialURL variants against the library's Listen/Accept, " +
			"(ls) the library's dialler against a scripted server (conforming with its own read-ahead, or hostile: silent, partial prompt, garbage with/without CR, " +
			"close at once / at prompt offset k, callsign prompt only, endless drip, password prompt later than the deadline, SYN never answered, refused), " +
			"(cl) a scripted client (blind or prompt-driven; callsign line, password line and payload in one write or cut at seed-chosen offsets) against the library's listener. " +
			"Seeded: callsign (no CR, no leading/trailing white space: the listener trims - stated narrowing) and password (no CR) incl. empty, binary and >4 KiB; " +
			"post-login payloads both ways (0 B .. 8 KB quick, 65 KB thorough; random, CR/LF/NUL, IAC, B2F text) in seeded Write calls, pauses and Read buffer sizes; " +
			"dial API and timeout/deadline; per-direction segmentation, latency and coalescing tapes (a write may be merged into the still undelivered previous segment, " +
			"so payload can share a segment with the last login line); a quiet regime in which payload starts only after both logins returned. " +
			"Oracles: RemoteCall() of the accepted conn = dialled callsign; bytes read after login on each side = bytes the peer wrote after login (complete, in order, read to EOF/close); " +
			"against hostile servers the dial call has returned when the simulated clock reaches its deadline + 1 s. " +
			"Non-trivial: a login completed and at least one payload byte was written, or a hostile-server dial was exercised. Distinct: distinct event-log hash.",
		Real:         []string{"transport/telnet (Dial, DialTimeout, DialContext, Dialer.DialURL/DialURLContext, Listen, Accept, Conn)", "transport (ParseURL, DialURL, DialURLContext, dialer registry)"},
		Stub:         []string{"clock (testing/synctest)", "TCP network (net import swapped for sim/shim/net -> sim/simnet + sim/pipe)", "scripted telnet server and client models", "applications on both ends (readers/writers)"},
		Assumptions:  []string{"library runs on the Go 1.26.8 standard library, not 1.24.0", "goroutine choice between two environment events is the Go runtime's at GOMAXPROCS=1", "a dial_timeout URL parameter overrides the Dialer's own Timeout (as dial.go documents by construction)", "the simulated net.Dialer honours its context during connect (as the real one does)"},
		QuickRuns:    80000,
		ThoroughRuns: 2000000,
		WatchdogSec:  120,
		// the deadline clause is decided on the simulated clock; a wall-clock hang
		// would be a spin inside Dial/Accept, which the property also excludes
		HangIsViolation: true,
	}
}

func (Engine) Generate(prop, tier string, r *core.Rand, run int) any {
	return generate(tier, r)
}

func (Engine) Execute(t *testing.T, prop string, plan json.RawMessage, trace bool) core.Outcome {
	if prop != "C15" {
		var o core.Outcome
		o.Violate(prop, "harness", "unknown-property", "engine telnetsim does not serve "+prop)
		return o
	}
	return execute(t, prop, plan, trace)
}
