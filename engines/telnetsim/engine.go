// Package telnetsim is the engine behind C15: the real transport/telnet
// dialler and listener on the simulated network.
package telnetsim

import (
	"encoding/json"
	"testing"

	"verif/sim/core"
)

type Engine struct{}

func (Engine) Name() string { return "telnetsim" }

func (Engine) Info(prop string) core.Info {
	if prop != "C15" {
		return core.Info{}
	}
	return core.Info{
		Level: "exploration",
		Rule: "one plan = one run on the simulated network. 60 % of the plans are one telnet login in one of three arms: (ll) the library's Dial*/DialURL variants against the library's Listen/Accept, " +
			"(ls) the library's dialler against a scripted server (conforming with its own read-ahead, or hostile: silent, partial prompt, garbage with/without CR, " +
			"close at once / at prompt offset k, callsign prompt only, endless drip, password prompt later than the deadline, SYN never answered, refused, prompts but never reads on a link with back-pressure), " +
			"(cl) a scripted client (blind or prompt-driven; callsign line, password line and payload in one write or cut at seed-chosen offsets) against the library's listener. " +
			"40 % of the plans hold 2-5 sessions (each ll or cl, own callsign/password/payloads/link schedule/dial API) through ONE listener of the library, served by 1-3 goroutines running the usual accept loop " +
			"(for { c := Accept(); go serve(c) }, seeded pauses): every session starts either on the run's clock or when a named earlier session has been closed on both sides, so sessions are sequential, overlapping or mixed; " +
			"dial offsets, write pauses and the time a session stays open after its transfer are drawn from one time scale per plan so that logins, transfers and closes of different sessions interleave. " +
			"Close behaviour per session and side: which side closes first or both without waiting for the other's EOF; Close called once, twice or three times (back to back = explicit + deferred Close, or after a pause, during which later sessions may be accepted); " +
			"Close while the side's reader goroutine is blocked in Read, or after a read deadline has taken the reader out of Read. " +
			"Consumption modes: the application on a library-made connection (dialled or accepted) reads it per plan with plain Read calls (seeded buffer sizes), io.Copy(dst, conn), io.CopyBuffer, the connection's own io.WriterTo if the returned value offers one, io.ReadAll, " +
			"a bufio.Reader (Read calls, or io.Copy from it), and writes with Write calls, io.Copy(conn, src), the connection's own io.ReaderFrom if offered, or a bufio.Writer; the simulated net package hands out *net.TCPConn values whose ReadFrom/WriteTo go to the raw socket like the real ones, " +
			"so a type assertion to *net.TCPConn inside the library succeeds as in production and promoted TCPConn methods behave as in production. " +
			"Seeded: callsign (no CR, no leading/trailing white space: the listener trims - stated narrowing) and password (no CR) incl. empty, binary and >4 KiB; " +
			"post-login payloads both ways (0 B .. 8 KB quick, 65 KB thorough; random, CR/LF/NUL, IAC, B2F text; in runs with several sessions every 24 bytes carry a 5-byte tag naming session and direction, so that bytes handed to the wrong session are reported as cross-talk) in seeded Write calls, pauses and Read buffer sizes; " +
			"dial API and timeout/deadline; per-direction segmentation, latency and coalescing tapes (a write may be merged into the still undelivered previous segment, " +
			"so payload can share a segment with the last login line); a quiet regime in which payload starts only after both logins returned. " +
			"Oracles, per session: RemoteCall() of the accepted conn = the callsign that session dialled with; bytes read after login on each side = bytes the peer of the same session wrote after login (complete, in order, nothing of any other session, read to EOF/close); " +
			"against hostile servers the dial call has returned when the simulated clock reaches its deadline + 1 s; a dial to the package's own listener returns a connection, or an error not before its deadline (logins queue in the accept loop; timeouts are generated with room for all of them). " +
			"A run is a function of its plan: sync.Pool contents are dropped (two collections) before every plan, so package-level state can travel between the sessions of a plan but not between plans. " +
			"Non-trivial: a login completed and at least one payload byte was written, or a hostile-server dial was exercised. Distinct: distinct event-log hash.",
		Real:         []string{"transport/telnet (Dial, DialTimeout, DialContext, Dialer.DialURL/DialURLContext, Listen, Accept, Conn)", "transport (ParseURL, DialURL, DialURLContext, dialer registry)"},
		Stub:         []string{"clock (testing/synctest)", "TCP network (net import swapped for sim/shim/net -> sim/simnet + sim/pipe; connections are the shim's *TCPConn with raw-socket ReadFrom/WriteTo)", "scripted telnet server and client models", "applications on both ends (accept loop, readers/writers in the plan's consumption mode, close behaviour)"},
		Assumptions:  []string{"library runs on the Go 1.26.8 standard library, not 1.24.0", "goroutine choice between two environment events is the Go runtime's at GOMAXPROCS=1", "a dial_timeout URL parameter overrides the Dialer's own Timeout (as dial.go documents by construction)", "the simulated net.Dialer honours its context during connect (as the real one does)", "sync.Pool hands out the most recently returned item first (GOMAXPROCS=1, no collection inside a run); no race detector"},
		QuickRuns:    80000,
		ThoroughRuns: 2000000,
		WatchdogSec:  120,
		// the deadline clause is decided on the simulated clock; a wall-clock hang
		// would be a spin inside Dial/Accept, which the property also excludes
		HangIsViolation: true,
	}
}

func (Engine) Generate(prop, tier string, r *core.Rand, run int) any {
	return generate(tier, r)
}

func (Engine) Execute(t *testing.T, prop string, plan json.RawMessage, trace bool) core.Outcome {
	if prop != "C15" {
		var o core.Outcome
		o.Violate(prop, "harness", "unknown-property", "engine telnetsim does not serve "+prop)
		return o
	}
	return execute(t, prop, plan, trace)
}
