package telnetsim

import (
	"bytes"
	"encoding/hex"
	"encoding/json"
	"strings"
	"unicode/utf8"

	"verif/sim/pipe"
)

// Bin is a byte string of a plan. It is written as a plain JSON string when it
// is valid UTF-8 (readable replay files) and as "hex:<hex digits>" otherwise.
// Decoding accepts anything the reducer can turn such a string into.
type Bin []byte

func (b Bin) MarshalJSON() ([]byte, error) {
	if utf8.Valid(b) && !bytes.HasPrefix(b, []byte("hex:")) {
		return json.Marshal(string(b))
	}
	return json.Marshal("hex:" + hex.EncodeToString(b))
}

func (b *Bin) UnmarshalJSON(raw []byte) error {
	var s string
	if err := json.Unmarshal(raw, &s); err != nil {
		*b = nil
		return nil
	}
	if !strings.HasPrefix(s, "hex:") {
		*b = []byte(s)
		return nil
	}
	s = s[4:]
	out := make([]byte, 0, len(s)/2)
	for i := 0; i+1 < len(s); i += 2 {
		v, err := hex.DecodeString(s[i : i+2])
		if err != nil {
			break
		}
		out = append(out, v[0])
	}
	*b = out
	return nil
}

// Stream is the post-login traffic of one side.
type Stream struct {
	Data Bin `json:"data"`
	// Chunks: sizes of the Write calls the data is handed over in (<=0: rest).
	Chunks []int `json:"chunks,omitempty"`
	// DelayUs: simulated pause before each Write (tape; entry 0 is the pause
	// between the end of the login and the first write).
	DelayUs []int `json:"delay_us,omitempty"`
	// ReadBuf: buffer sizes of the Read calls on the receiving side (tape).
	ReadBuf []int `json:"read_buf,omitempty"`
	// ReadVia: how the application on the receiving side consumes the
	// connection the library returned (only where that side is the library's):
	// "" | read: Read calls with the ReadBuf sizes; copy: io.Copy(dst, conn);
	// copybuf: io.CopyBuffer with a ViaBuf-sized buffer; writeto: conn's own
	// io.WriterTo if the returned value offers one, else io.Copy; readall:
	// io.ReadAll; bufio: Read calls on a bufio.Reader of ViaBuf bytes;
	// bufio-writeto: io.Copy(dst, bufio.NewReaderSize(conn, ViaBuf)).
	ReadVia string `json:"read_via,omitempty"`
	// WriteVia: how the sending application hands the data over (only where
	// that side is the library's): "" | write: Write calls; copy: io.Copy(conn,
	// src) with a source that yields the chunks; readfrom: conn's own
	// io.ReaderFrom if offered, else io.Copy; bufio: a bufio.Writer of ViaBuf
	// bytes, flushed after the chunks whose index is odd and at the end.
	WriteVia string `json:"write_via,omitempty"`
	ViaBuf   int    `json:"via_buf,omitempty"`
}

// Server is the scripted server model of arm "ls".
type Server struct {
	// Kind: conform | eager | silent | partial | garbage-nocr | garbage-cr |
	// close-now | close-at | callsign-only | drip | slow | connect-hang | refused
	Kind string `json:"kind"`
	// PromptDelayUs: pause before each prompt.
	PromptDelayUs []int `json:"prompt_delay_us,omitempty"`
	// Garbage: what the garbage/drip kinds send.
	Garbage Bin `json:"garbage,omitempty"`
	// Off: prompt-stream offset at which partial stops / close-at closes.
	Off int `json:"off,omitempty"`
	// DripUs: period of the drip kind; SlowExtraMs: by how much the slow
	// kind's password prompt misses the dial deadline.
	DripUs      int `json:"drip_us,omitempty"`
	SlowExtraMs int `json:"slow_extra_ms,omitempty"`
}

// Client is the scripted client model of arm "cl".
type Client struct {
	// Blind: sends without waiting for the prompts.
	Blind bool `json:"blind,omitempty"`
	// Cuts: offsets at which callsign line + password line + payload are
	// split into Write calls. DelayUs: pause before each Write.
	Cuts    []int `json:"cuts,omitempty"`
	DelayUs []int `json:"delay_us,omitempty"`
}

// CloseSpec is how one side ends its connection.
type CloseSpec struct {
	// N: number of Close calls (0 and 1: one; at most 3). Two is the usual
	// "explicit Close plus deferred Close".
	N int `json:"n,omitempty"`
	// GapUs: pause before each repeated Close (0: back to back).
	GapUs int `json:"gap_us,omitempty"`
	// Unblock: before the first Close a read deadline in the past takes the
	// side's reader out of Read, so that no goroutine is inside Read when Close
	// is called. Otherwise the side that closes first does so while its reader
	// goroutine is blocked in Read.
	Unblock bool `json:"unblock,omitempty"`
}

// Session is one login + transfer + close. Session 0 of a run is made of the
// plan's top-level fields (the JSON of single-session plans did not change
// when runs with several sessions were added); sessions 1.. are Plan.More.
type Session struct {
	// Arm: "ll" library dialler <-> library listener, "ls" library dialler <->
	// scripted server (single-session runs only), "cl" scripted client <->
	// library listener.
	Arm  string `json:"arm"`
	Call Bin    `json:"call"`
	Pass Bin    `json:"pass"`

	// API: dial | dialtimeout | ctx-timeout | ctx-deadline | ctx-none |
	// dialer-url | dialer-urlctx | transport-url | transport-urlctx
	API string `json:"api"`
	// TimeoutMs: the timeout/deadline given to the API (dial: fixed 5 s by the
	// library). CtxMs: deadline of the context of the *urlctx APIs (0: none).
	// Param: pass the timeout as the URL's dial_timeout parameter.
	TimeoutMs int  `json:"timeout_ms,omitempty"`
	CtxMs     int  `json:"ctx_ms,omitempty"`
	Param     bool `json:"param,omitempty"`

	// After: 0: the session's clock starts with the run; n > 0: it starts when
	// session n-1 (which must have a lower index) has been closed on both
	// sides. DialDelayUs: pause on that clock before the dial.
	After       int `json:"after,omitempty"`
	DialDelayUs int `json:"dial_delay_us,omitempty"`
	ConnectUs   int `json:"connect_us,omitempty"`

	Link pipe.Plan `json:"link"`

	C2S Stream `json:"c2s"`
	S2C Stream `json:"s2c"`
	// Quiet: neither side writes payload before both logins have returned and
	// QuietUs more have passed (regime in which nothing can be in flight
	// together with the login lines).
	Quiet   bool `json:"quiet,omitempty"`
	QuietUs int  `json:"quiet_us,omitempty"`
	// HoldUs: how long the session stays open after its transfer is complete.
	HoldUs int `json:"hold_us,omitempty"`
	// CloseFirst: "client" or "server" closes first after the transfer and the
	// other side reads until EOF, then closes; "both": both sides close without
	// waiting for the other's EOF.
	CloseFirst string `json:"close_first,omitempty"`
	// CliClose, SrvClose: how the dialling / the accepting side closes.
	CliClose CloseSpec `json:"cli_close,omitzero"`
	SrvClose CloseSpec `json:"srv_close,omitzero"`

	Client Client `json:"client"`
}

// Plan is one run of the telnet engine.
type Plan struct {
	Session // session 0 (flattened into the plan's JSON object)

	// AcceptDelayUs: pause before the server's first Accept; AcceptGapUs: pause
	// before each further Accept of an accept loop (tape).
	AcceptDelayUs int   `json:"accept_delay_us,omitempty"`
	AcceptGapUs   []int `json:"accept_gap_us,omitempty"`
	// Acceptors: number of goroutines that run the accept loop "for { c :=
	// Accept(); go serve(c) }" on the one listener (0 and 1: one; at most 3).
	Acceptors int `json:"acceptors,omitempty"`

	Server Server `json:"server"`

	// More: further sessions through the same listener (arms ll and cl), in
	// index order 1..; at most 7 are used.
	More []Session `json:"more,omitempty"`
}
