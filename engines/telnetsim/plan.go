package telnetsim

import (
	"bytes"
	"encoding/hex"
	"encoding/json"
	"strings"
	"unicode/utf8"

	"verif/sim/pipe"
)

// Bin is a byte string of a plan. It is written as a plain JSON string when it
// is valid UTF-8 (readable replay files) and as "hex:<hex digits>" otherwise.
// Decoding accepts anything the reducer can turn such a string into.
type Bin []byte

func (b Bin) MarshalJSON() ([]byte, error) {
	if utf8.Valid(b) && !bytes.HasPrefix(b, []byte("hex:")) {
		return json.Marshal(string(b))
	}
	return json.Marshal("hex:" + hex.EncodeToString(b))
}

func (b *Bin) UnmarshalJSON(raw []byte) error {
	var s string
	if err := json.Unmarshal(raw, &s); err != nil {
		*b = nil
		return nil
	}
	if !strings.HasPrefix(s, "hex:") {
		*b = []byte(s)
		return nil
	}
	s = s[4:]
	out := make([]byte, 0, len(s)/2)
	for i := 0; i+1 < len(s); i += 2 {
		v, err := hex.DecodeString(s[i : i+2])
		if err != nil {
			break
		}
		out = append(out, v[0])
	}
	*b = out
	return nil
}

// Stream is the post-login traffic of one side.
type Stream struct {
	Data Bin `json:"data"`
	// Chunks: sizes of the Write calls the data is handed over in (<=0: rest).
	Chunks []int `json:"chunks,omitempty"`
	// DelayUs: simulated pause before each Write (tape; entry 0 is the pause
	// between the end of the login and the first write).
	DelayUs []int `json:"delay_us,omitempty"`
	// ReadBuf: buffer sizes of the Read calls on the receiving side (tape).
	ReadBuf []int `json:"read_buf,omitempty"`
}

// Server is the scripted server model of arm "ls".
type Server struct {
	// Kind: conform | eager | silent | partial | garbage-nocr | garbage-cr |
	// close-now | close-at | callsign-only | drip | slow | connect-hang | refused
	Kind string `json:"kind"`
	// PromptDelayUs: pause before each prompt.
	PromptDelayUs []int `json:"prompt_delay_us,omitempty"`
	// Garbage: what the garbage/drip kinds send.
	Garbage Bin `json:"garbage,omitempty"`
	// Off: prompt-stream offset at which partial stops / close-at closes.
	Off int `json:"off,omitempty"`
	// DripUs: period of the drip kind; SlowExtraMs: by how much the slow
	// kind's password prompt misses the dial deadline.
	DripUs      int `json:"drip_us,omitempty"`
	SlowExtraMs int `json:"slow_extra_ms,omitempty"`
}

// Client is the scripted client model of arm "cl".
type Client struct {
	// Blind: sends without waiting for the prompts.
	Blind bool `json:"blind,omitempty"`
	// Cuts: offsets at which callsign line + password line + payload are
	// split into Write calls. DelayUs: pause before each Write.
	Cuts    []int `json:"cuts,omitempty"`
	DelayUs []int `json:"delay_us,omitempty"`
}

// Plan is one run of the telnet engine.
type Plan struct {
	// Arm: "ll" library dialler <-> library listener, "ls" library dialler <->
	// scripted server, "cl" scripted client <-> library listener.
	Arm  string `json:"arm"`
	Call Bin    `json:"call"`
	Pass Bin    `json:"pass"`

	// API: dial | dialtimeout | ctx-timeout | ctx-deadline | ctx-none |
	// dialer-url | dialer-urlctx | transport-url | transport-urlctx
	API string `json:"api"`
	// TimeoutMs: the timeout/deadline given to the API (dial: fixed 5 s by the
	// library). CtxMs: deadline of the context of the *urlctx APIs (0: none).
	// Param: pass the timeout as the URL's dial_timeout parameter.
	TimeoutMs int  `json:"timeout_ms,omitempty"`
	CtxMs     int  `json:"ctx_ms,omitempty"`
	Param     bool `json:"param,omitempty"`

	DialDelayUs   int `json:"dial_delay_us,omitempty"`
	AcceptDelayUs int `json:"accept_delay_us,omitempty"`
	ConnectUs     int `json:"connect_us,omitempty"`

	Link pipe.Plan `json:"link"`

	C2S Stream `json:"c2s"`
	S2C Stream `json:"s2c"`
	// Quiet: neither side writes payload before both logins have returned and
	// QuietUs more have passed (regime in which nothing can be in flight
	// together with the login lines).
	Quiet   bool `json:"quiet,omitempty"`
	QuietUs int  `json:"quiet_us,omitempty"`
	// CloseFirst: "client" or "server" closes first after the transfer; the
	// other side reads until EOF.
	CloseFirst string `json:"close_first,omitempty"`

	Server Server `json:"server"`
	Client Client `json:"client"`
}
