package telnetsim

import (
	"bytes"
	"context"
	"sort"
	"strings"
	"time"

	"verif/sim/core"
	"verif/sim/pipe"
)

// serverModel is the scripted server of arm "ls": a conforming telnet-login
// server written from the protocol (prompt, CR-terminated reply, prompt,
// CR-terminated reply, then the transparent stream) that keeps its own
// read-ahead, or one of the hostile behaviours the property names.
type serverModel struct {
	s    *sess
	spec dialSpec

	stop   chan struct{} // closed by the harness: give up
	logged chan struct{} // closed when the password line was read
	wrDone chan struct{}
	done   chan struct{}

	end      *pipe.End
	buf      []byte
	callLine []byte
	passLine []byte
	got      []byte
	rd       *core.GoResult
	sent     int
	wrErr    error
}

func newServerModel(s *sess, spec dialSpec) *serverModel {
	return &serverModel{s: s, spec: spec, stop: make(chan struct{}), logged: make(chan struct{}), wrDone: make(chan struct{}), done: make(chan struct{})}
}

func (m *serverModel) isLogged() bool {
	select {
	case <-m.logged:
		return true
	default:
		return false
	}
}

// wait blocks until the model's goroutines have ended (if it ever ran).
func (m *serverModel) wait() {
	if len(m.s.w.links) == 0 {
		return
	}
	waitCh(endBudget, m.done)
	if m.rd != nil {
		core.WaitAll(endBudget, m.rd)
	}
}

func (m *serverModel) write(b []byte) bool {
	if len(b) == 0 {
		return true
	}
	n, err := m.end.Write(b)
	m.sent += n
	if err != nil {
		m.wrErr = err
		return false
	}
	return true
}

func (m *serverModel) readLine(bufs []int, k *int) ([]byte, bool) {
	for {
		if i := bytes.IndexByte(m.buf, '\r'); i >= 0 {
			line := append([]byte(nil), m.buf[:i]...)
			m.buf = m.buf[i+1:]
			return line, true
		}
		tmp := make([]byte, clampInt(core.TapeAt(bufs, *k, 4096), 1, 1<<16))
		*k++
		n, err := m.end.Read(tmp)
		m.buf = append(m.buf, tmp[:n]...)
		if err != nil && bytes.IndexByte(m.buf, '\r') < 0 {
			return nil, false
		}
	}
}

func (m *serverModel) pause(i int) {
	if d := us(core.TapeAt(m.s.r.p.Server.PromptDelayUs, i, 0)); d > 0 {
		sleepU(m.s.r.sim, d)
	}
}

// promptPrefix plays the conforming prompt sequence up to output offset off
// (reading the client's reply between the prompts) and reports whether it got
// that far.
func (m *serverModel) promptPrefix(off int, k *int) bool {
	bufs := m.s.sp.C2S.ReadBuf
	m.pause(0)
	if off <= len(prompt1) {
		return m.write([]byte(prompt1[:off]))
	}
	if !m.write([]byte(prompt1)) {
		return false
	}
	line, ok := m.readLine(bufs, k)
	if !ok {
		return false
	}
	m.callLine = line
	m.pause(1)
	return m.write([]byte(prompt2[:clampInt(off-len(prompt1), 0, len(prompt2))]))
}

func (m *serverModel) serve(c *pipe.End, _ *pipe.Link) {
	defer close(m.done)
	m.end = c
	s, sim, p := m.s, m.s.r.sim, m.s.sp
	sv := s.r.p.Server
	sim.Logf("server model %q starts", sv.Kind)
	k := 0
	total := len(prompt1) + len(prompt2)
	switch sv.Kind {
	case "silent", "connect-hang", "refused":
		<-m.stop
	case "partial":
		off := clampInt(sv.Off, 1, total-1)
		m.promptPrefix(off, &k)
		<-m.stop
	case "callsign-only":
		m.promptPrefix(len(prompt1), &k)
		m.readLine(p.C2S.ReadBuf, &k)
		<-m.stop
	case "stall-after-prompt":
		// prompts, then never reads: on a link with back-pressure the dialler's
		// reply does not fit and its Write blocks
		off := len(prompt1)
		if sv.Off%2 == 1 {
			off = total
		}
		m.promptPrefix(off, &k)
		<-m.stop
	case "close-now":
		m.pause(0)
		c.Close()
	case "close-at":
		off := clampInt(sv.Off, 0, total-1)
		m.promptPrefix(off, &k)
		c.Close()
	case "garbage-nocr", "garbage-cr":
		g := []byte(sv.Garbage)
		if len(g) > maxField {
			g = g[:maxField]
		}
		if sv.Kind == "garbage-nocr" {
			g = bytes.ReplaceAll(g, []byte{'\r'}, []byte{'\n'})
		}
		m.pause(0)
		n, err := writeStream(sim, s.r.note, "server", c, Stream{Data: g, Chunks: p.S2C.Chunks, DelayUs: p.S2C.DelayUs})
		m.sent += n
		m.wrErr = err
		<-m.stop
	case "drip":
		g := []byte(sv.Garbage)
		if len(g) == 0 {
			g = []byte("...\r")
		}
		if len(g) > 256 {
			g = g[:256]
		}
		period := us(sv.DripUs)
		if period < time.Millisecond {
			period = time.Millisecond
		}
		span := m.spec.timeout + 3*time.Second
		if span/period > 4000 {
			period = span / 4000
		}
		for t := time.Duration(0); t < span; t += period {
			sleepU(sim, period)
			select {
			case <-m.stop:
				return
			default:
			}
			if !m.write(g) {
				return
			}
		}
		<-m.stop
	case "slow":
		// conforming, but the password prompt comes SlowExtraMs after (or before,
		// if negative) the dial deadline
		if !m.promptPrefix(len(prompt1), &k) {
			return
		}
		line, ok := m.readLine(p.C2S.ReadBuf, &k)
		if !ok {
			return
		}
		m.callLine = line
		extra := time.Duration(clampInt(sv.SlowExtraMs, -3600_000, 3600_000)) * time.Millisecond
		if wait := s.w.startDial + m.spec.timeout + extra - sim.Now(); wait > 0 {
			sleepU(sim, wait)
		}
		if !m.write([]byte(prompt2)) {
			return
		}
		m.readLine(p.C2S.ReadBuf, &k)
		<-m.stop
	default: // conform, eager
		if !m.promptPrefix(len(prompt1), &k) {
			return
		}
		line, ok := m.readLine(p.C2S.ReadBuf, &k)
		if !ok {
			return
		}
		m.callLine = line
		m.pause(1)
		s2c := Stream{Data: clip(p.S2C.Data), Chunks: p.S2C.Chunks, DelayUs: p.S2C.DelayUs}
		if sv.Kind == "eager" && len(s2c.Data) > 0 {
			// not conforming: the first payload chunk leaves with the password
			// prompt, before the password line was read (evidence-only arm)
			sz := core.TapeAt(s2c.Chunks, 0, 0)
			if sz <= 0 || sz > len(s2c.Data) {
				sz = len(s2c.Data)
			}
			if !m.write(append([]byte(prompt2), s2c.Data[:sz]...)) {
				return
			}
			s2c.Data = s2c.Data[sz:]
			if len(s2c.Chunks) > 0 {
				s2c.Chunks = append(append([]int(nil), s2c.Chunks[1:]...), s2c.Chunks[0])
			}
		} else if !m.write([]byte(prompt2)) {
			return
		}
		line, ok = m.readLine(p.C2S.ReadBuf, &k)
		if !ok {
			return
		}
		m.passLine = line
		sim.Logf("server model read the password line")
		close(m.logged)
		m.got = append(m.got, m.buf...)
		m.buf = nil
		m.rd = startReader(sim, s.r.note, "server", c, &Stream{ReadBuf: p.C2S.ReadBuf}, &m.got)
		if p.Quiet {
			<-s.bothSrv
			sleepU(sim, us(p.QuietUs)+time.Millisecond)
		}
		n, err := writeStream(sim, s.r.note, "server", c, s2c)
		m.sent += n
		m.wrErr = err
		close(m.wrDone)
	}
}

// clientModel is the scripted client of arm "cl": it sends the callsign line,
// the password line and its payload in the plan's Write calls, either blindly
// or waiting for the prompts, and keeps its own read-ahead.
type clientModel struct {
	s      *sess
	cli    *side
	end    *pipe.End
	rd     *core.GoResult
	p1, p2 chan struct{}
}

func newClientModel(s *sess) *clientModel {
	return &clientModel{s: s, cli: s.cli, p1: make(chan struct{}), p2: make(chan struct{})}
}

func (m *clientModel) run() {
	s, r, sim, p, cli := m.s, m.s.r, m.s.r.sim, m.s.sp, m.cli
	sleepU(sim, us(p.DialDelayUs))
	cli.startAt = sim.Now()
	r.noteDial(s.k)
	c, err := r.n.Dial(context.Background(), srvAddr)
	if err != nil {
		cli.loginReturned(sim, nil, err)
		return
	}
	m.end = c
	if d := s.resumeAt - sim.Now(); d > 0 {
		time.Sleep(d) // whatever the connect woke runs first (see OnLink)
	}
	m.rd = core.Go(m.reader)
	cli.rd = m.rd

	payload := clip(p.C2S.Data)
	data := append([]byte(s.call+"\r"+s.pass+"\r"), payload...)
	l1, l := s.w.l1, s.w.l
	cutSet := map[int]bool{}
	for _, x := range p.Client.Cuts {
		if x > 0 && x < len(data) {
			cutSet[x] = true
		}
	}
	if !p.Client.Blind {
		cutSet[l1] = true // never password bytes before the password prompt
	}
	if p.Quiet && l < len(data) {
		cutSet[l] = true
	}
	cuts := make([]int, 0, len(cutSet)+1)
	for x := range cutSet {
		cuts = append(cuts, x)
	}
	sort.Ints(cuts)
	cuts = append(cuts, len(data))
	signalled, quietDone := false, false
	a := 0
	for i, b := range cuts {
		if !p.Client.Blind {
			if a < l1 {
				<-m.p1
			} else if a < l {
				<-m.p2
			}
		}
		if a >= l && p.Quiet && !quietDone {
			quietDone = true
			if !signalled {
				signalled = true
				cli.loginReturned(sim, nil, nil)
			}
			<-s.bothCli
			sleepU(sim, us(p.QuietUs)+time.Millisecond)
		}
		if d := us(core.TapeAt(p.Client.DelayUs, i, 0)); d > 0 {
			sleepU(sim, d)
		}
		n, err := c.Write(data[a:b])
		if w := a + n - l; w > 0 {
			cli.wrote = w
		}
		if err != nil {
			cli.wrErr = err
			sim.Logf("%s model write failed at %d", cli.name, a+n)
			break
		}
		a = b
		if a >= l && !signalled {
			signalled = true
			cli.loginReturned(sim, nil, nil)
		}
	}
	if !signalled {
		cli.loginReturned(sim, nil, cli.wrErr)
	}
	sim.Logf("%s model wrote %d bytes", cli.name, a)
}

func closeOnce(c chan struct{}) {
	select {
	case <-c:
	default:
		close(c)
	}
}

// reader splits what the server sends the way the protocol prescribes (and the
// library's own dialler does): CR-terminated lines until the password prompt,
// everything after it is the transparent stream.
func (m *clientModel) reader() {
	defer closeOnce(m.p2)
	defer closeOnce(m.p1)
	bufs := m.s.sp.S2C.ReadBuf
	var buf []byte
	state := 0
	for i := 0; ; i++ {
		tmp := make([]byte, clampInt(core.TapeAt(bufs, i, 4096), 1, 1<<16))
		n, err := m.end.Read(tmp)
		buf = append(buf, tmp[:n]...)
		for state < 2 {
			j := bytes.IndexByte(buf, '\r')
			if j < 0 {
				break
			}
			line := strings.TrimSpace(strings.ToLower(string(buf[:j+1])))
			buf = buf[j+1:]
			switch {
			case strings.HasPrefix(line, "callsign"):
				if state == 0 {
					state = 1
				}
				closeOnce(m.p1)
			case strings.HasPrefix(line, "password"):
				state = 2
				closeOnce(m.p1)
				closeOnce(m.p2)
			}
		}
		if state == 2 {
			m.cli.got = append(m.cli.got, buf...)
			buf = nil
		}
		if err != nil {
			m.s.r.sim.Logf("%s model reader ends after %d bytes", m.cli.name, len(m.cli.got))
			return
		}
	}
}
