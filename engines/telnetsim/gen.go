package telnetsim

import (
	"strings"

	"verif/sim/core"
	"verif/sim/pipe"
)

var someCalls = []string{"LA5NTA", "n0call", "LA1B-10", "W1AW", "sm0xyz-5", "K7ABC", "DL1ABC-15", "G4XYZ-1", "N0SIM"}

func randBytesNoCR(r *core.Rand, n int) []byte {
	b := r.Bytes(n)
	for i := range b {
		if b[i] == '\r' {
			b[i] = '\n'
		}
	}
	return b
}

func printable(r *core.Rand, n int) []byte {
	b := make([]byte, n)
	for i := range b {
		b[i] = byte(r.Range(0x20, 0x7e))
	}
	return b
}

// genCall draws a callsign from the property's domain: no CR, no
// leading/trailing white space.
func genCall(r *core.Rand) Bin {
	var s string
	switch r.Pick(10, 3, 3, 1, 1, 2) {
	case 0:
		s = core.Choice(r, someCalls)
	case 1:
		s = string(printable(r, r.Range(1, 30)))
	case 2:
		s = string(randBytesNoCR(r, r.Range(1, 64)))
	case 3:
		s = ""
	case 4:
		s = string(randBytesNoCR(r, r.Range(200, 6000))) // longer than the login reader's buffer
	default:
		s = core.Choice(r, []string{"Password", "callsign :", "password :x", "Callsign :LA5NTA", "A\nB", "a b", "\x00", "\xff\xfd\x01"})
	}
	return Bin(cleanCall([]byte(s)))
}

func genPass(r *core.Rand) Bin {
	switch r.Pick(8, 3, 3, 2, 1) {
	case 0:
		return Bin(core.Choice(r, []string{"CMSTelnet", "secret", "p4ssw0rd!", "x"}))
	case 1:
		return Bin(printable(r, r.Range(0, 40)))
	case 2:
		return Bin(randBytesNoCR(r, r.Range(0, 64)))
	case 3:
		return Bin(core.Choice(r, []string{"", " ", " lead", "trail ", "\n", "Callsign :", "Password :"}))
	}
	return Bin(randBytesNoCR(r, r.Range(200, 6000)))
}

func genPayload(r *core.Rand, big bool) []byte {
	n := 0
	switch r.Pick(1, 2, 4, 3) {
	case 1:
		n = r.Range(1, 16)
	case 2:
		n = r.Range(17, 600)
	case 3:
		n = r.Range(600, 8000)
		if big && r.Chance(0.4) {
			n = r.Range(8000, 65000)
		}
	}
	if n == 0 {
		return nil
	}
	switch r.Pick(4, 3, 1, 1, 2) {
	case 0:
		return r.Bytes(n)
	case 1: // text with CR / LF / CRLF line ends
		var sb strings.Builder
		for sb.Len() < n {
			sb.Write(printable(r, r.Range(0, 40)))
			sb.WriteString(core.Choice(r, []string{"\r", "\n", "\r\n", "\r\r"}))
		}
		return []byte(sb.String()[:n])
	case 2: // nothing but line ends and NULs
		b := make([]byte, n)
		for i := range b {
			b[i] = "\r\n\x00"[r.Intn(3)]
		}
		return b
	case 3: // telnet IAC bytes and NULs
		b := make([]byte, n)
		for i := range b {
			b[i] = []byte{0xff, 0xfd, 0xfb, 0x00, 0x01, '\r'}[r.Intn(6)]
		}
		return b
	}
	// what a B2F session would send first
	s := "[WL2K-5.0-B2FWIHJM$]\r;PQ: 23753528\rCMS via sim >\r;FW: LA5NTA\r[wl2kgo-0.1.0-B2FHM$]\r; WL2K DE LA5NTA (JO59)\rFF\r"
	for len(s) < n {
		s += s
	}
	return []byte(s[:n])
}

func genStream(r *core.Rand, big bool) Stream {
	st := Stream{Data: genPayload(r, big)}
	switch r.Pick(4, 3, 2, 1) {
	case 0: // one Write
	case 1:
		hi := r.Range(1, 300)
		st.Chunks = core.Tape(r, r.Range(1, 6), func() int { return r.Range(1, hi) })
	case 2:
		st.Chunks = core.Tape(r, r.Range(2, 6), func() int { return r.Pick(1, 1) * r.Range(1, 2000) })
	case 3:
		st.Chunks = []int{1}
		if len(st.Data) > 400 {
			st.Chunks = []int{r.Range(1, 3), r.Range(40, 400)}
		}
	}
	scale := []int{0, 0, 0, 50, 2000, 100000, 3000000}[r.Intn(7)]
	if scale > 0 {
		st.DelayUs = core.Tape(r, r.Range(1, 4), func() int { return r.Pick(1, 2) * r.Intn(scale+1) })
	}
	switch r.Pick(4, 1, 2, 2) {
	case 0:
	case 1:
		st.ReadBuf = []int{1}
	case 2:
		st.ReadBuf = core.Tape(r, r.Range(1, 5), func() int { return r.Range(1, 64) })
	case 3:
		st.ReadBuf = core.Tape(r, r.Range(1, 5), func() int { return r.Range(1, 20000) })
	}
	return st
}

func genDir(r *core.Rand) pipe.DirPlan {
	var d pipe.DirPlan
	switch r.Pick(4, 1, 3, 3) {
	case 0: // whole writes
	case 1:
		d.Seg = []int{1}
	case 2:
		hi := r.Range(1, 12)
		d.Seg = core.Tape(r, r.Range(1, 9), func() int { return r.Range(1, hi) })
	case 3:
		d.Seg = core.Tape(r, r.Range(2, 10), func() int {
			switch r.Pick(2, 2, 2) {
			case 0:
				return r.Range(1, 4)
			case 1:
				return r.Range(5, 300)
			}
			return 0
		})
	}
	scale := []int{0, 10, 200, 3000, 50000}[r.Intn(5)]
	d.LatUs = core.Tape(r, r.Range(1, 6), func() int { return r.Intn(scale + 1) })
	switch r.Pick(4, 3, 3) {
	case 1:
		d.Coalesce = []int{1}
	case 2:
		d.Coalesce = core.Tape(r, r.Range(2, 6), func() int { return r.Intn(2) })
	}
	return d
}

var hostileKinds = []string{"silent", "partial", "garbage-nocr", "garbage-cr", "close-now", "close-at", "callsign-only", "drip", "slow", "connect-hang", "refused", "stall-after-prompt"}

func genGarbage(r *core.Rand, withCR bool) Bin {
	n := r.Range(1, 3000)
	if r.Chance(0.1) {
		n = r.Range(3000, 20000)
	}
	var b []byte
	switch r.Pick(2, 2, 1) {
	case 0:
		b = r.Bytes(n)
	case 1:
		b = printable(r, n)
	default:
		b = []byte(strings.Repeat(core.Choice(r, []string{"Login:", "callsig", "Passwor", "*** ", "\xff\xfd\x18"}), n/3+1))[:n]
	}
	for i := range b {
		if b[i] == '\r' {
			b[i] = ' '
		}
	}
	if withCR {
		for i := r.Intn(40); i < len(b); i += r.Range(1, 80) {
			b[i] = '\r'
		}
		b[len(b)-1] = '\r'
	}
	return b
}

var apis = []string{"dial", "dialtimeout", "ctx-timeout", "ctx-deadline", "ctx-none", "dialer-url", "dialer-urlctx", "transport-url", "transport-urlctx"}

func genTimeoutMs(r *core.Rand) int {
	switch r.Pick(2, 3, 2) {
	case 0:
		return r.Range(1, 50)
	case 1:
		return r.Range(50, 2000)
	}
	return r.Range(2000, 60000)
}

func maxOf(xs []int, def int) int {
	if len(xs) == 0 {
		return def
	}
	m := xs[0]
	for _, x := range xs {
		if x > m {
			m = x
		}
	}
	return m
}

// segments bounds the number of deliveries n bytes written in w writes need.
func segments(d pipe.DirPlan, n, w int) int {
	minSeg := 0
	for _, s := range d.Seg {
		if s > 0 && (minSeg == 0 || s < minSeg) {
			minSeg = s
		}
	}
	if minSeg == 0 {
		return w
	}
	return n/minSeg + w
}

// sessionEstimateUs bounds the simulated duration of one fault-free login,
// counted from the connect.
func sessionEstimateUs(p *Session) int {
	est := maxOf([]int{p.ConnectUs, 1000}, 0)
	est += segments(p.Link.AB, len(p.Call)+len(p.Pass)+2, 2) * (maxOf(p.Link.AB.LatUs, 100) + 1)
	est += segments(p.Link.BA, len(prompt1)+len(prompt2), 2) * (maxOf(p.Link.BA.LatUs, 100) + 1)
	if p.Arm == "cl" {
		// the scripted client's own pauses keep the listener's login waiting
		est += (len(p.Client.Cuts) + 3) * maxOf(p.Client.DelayUs, 0)
	}
	return est
}

// loginEstimateUs bounds the simulated duration of a fault-free login.
func loginEstimateUs(p *Plan) int {
	est := sessionEstimateUs(&p.Session) + p.AcceptDelayUs
	if p.Arm == "ls" {
		for i := 0; i < 2; i++ {
			est += core.TapeAt(p.Server.PromptDelayUs, i, 0)
		}
	}
	return est
}

var readVias = []string{"copy", "copybuf", "writeto", "readall", "bufio", "bufio-writeto"}

// genVia draws how the applications consume and feed the connection.
func genVia(r *core.Rand, st *Stream) {
	if r.Chance(0.45) {
		st.ReadVia = readVias[r.Pick(6, 2, 3, 2, 4, 3)]
	}
	switch r.Pick(14, 3, 2, 2) {
	case 1:
		st.WriteVia = "copy"
	case 2:
		st.WriteVia = "readfrom"
	case 3:
		st.WriteVia = "bufio"
	}
	if st.ReadVia != "" || st.WriteVia != "" {
		st.ViaBuf = []int{16, 64, 512, 4096, 32768}[r.Intn(5)]
		if r.Chance(0.3) {
			st.ViaBuf = r.Range(1, 9000)
		}
	}
}

func genCloseSpec(r *core.Rand, gapScale int) CloseSpec {
	var c CloseSpec
	switch r.Pick(11, 8, 1) {
	case 1:
		c.N = 2
	case 2:
		c.N = 3
	}
	if c.N > 1 && r.Chance(0.35) {
		c.GapUs = r.Intn(gapScale + 1)
	}
	c.Unblock = r.Chance(0.3)
	return c
}

// genClose draws how the session ends.
func genClose(r *core.Rand, p *Session, gapScale int) {
	p.CloseFirst = []string{"client", "server", "both"}[r.Pick(4, 4, 2)]
	p.CliClose, p.SrvClose = genCloseSpec(r, gapScale), genCloseSpec(r, gapScale)
}

// tagPayload makes the payloads of a run with several sessions
// distinguishable: every 24 bytes it overwrites 5 bytes with a tag that names
// the session and the direction.
func tagPayload(r *core.Rand, data []byte, k int, dir byte) {
	for i := r.Intn(12); i+5 <= len(data); i += 24 {
		copy(data[i:], []byte{sessionTag[0], sessionTag[1], byte('A' + k), dir, 0x1f})
	}
}

// generateMulti: several sessions through one listener, sequential and
// overlapping.
func generateMulti(r *core.Rand) Plan {
	var p Plan
	n := 2 + r.Pick(3, 4, 3, 2)
	// the run's time scale: dial offsets, holds and write pauses are drawn
	// from it, so that the sessions' phases interleave
	T := []int{3000, 60000, 1500000, 6000000}[r.Intn(4)]
	shape := r.Pick(3, 2, 5) // all at once | one after the other | mixed
	ss := make([]Session, n)
	for k := range ss {
		s := &ss[k]
		s.Arm = []string{"ll", "cl"}[r.Pick(7, 3)]
		s.Call, s.Pass = genCall(r), genPass(r)
		if r.Chance(0.8) && (len(s.Call) > 200 || len(s.Pass) > 200) {
			s.Call, s.Pass = Bin(core.Choice(r, someCalls)), genPass(r)
		}
		s.C2S, s.S2C = genStream(r, false), genStream(r, false)
		for _, st := range []*Stream{&s.C2S, &s.S2C} {
			if len(st.Data) < 12 && r.Chance(0.7) {
				st.Data = genPayload(r, false)
			}
			if r.Chance(0.6) {
				// writes spread over the run's time scale
				if len(st.Chunks) < 2 && len(st.Data) > 1 {
					st.Chunks = core.Tape(r, r.Range(2, 5), func() int { return r.Range(1, len(st.Data)/2+1) })
				}
				st.DelayUs = core.Tape(r, r.Range(1, 4), func() int { return r.Intn(T/2 + 1) })
			}
			genVia(r, st)
		}
		tagPayload(r, s.C2S.Data, k, 'c')
		tagPayload(r, s.S2C.Data, k, 's')
		s.Link = pipe.Plan{AB: genDir(r), BA: genDir(r)}
		if r.Chance(0.3) {
			s.Quiet = true
			s.QuietUs = r.Pick(1, 1) * r.Intn(200000)
		}
		if r.Chance(0.7) {
			s.DialDelayUs = r.Intn(T)
		}
		if r.Chance(0.3) {
			s.ConnectUs = r.Intn(200000)
		}
		if r.Chance(0.7) {
			s.HoldUs = r.Intn(2 * T)
		}
		if k > 0 {
			switch shape {
			case 1:
				s.After = k
			case 2:
				if r.Chance(0.6) {
					s.After = r.Range(1, k)
				}
			}
		}
		genClose(r, s, T)
		s.API = core.Choice(r, apis)
		s.TimeoutMs = genTimeoutMs(r)
		switch s.API {
		case "dialer-url", "transport-url":
			s.Param = r.Bool()
		case "dialer-urlctx", "transport-urlctx":
			s.Param = r.Bool()
			if r.Chance(0.8) {
				s.CtxMs = genTimeoutMs(r)
			}
		}
		if s.Arm == "cl" {
			genClient(r, s)
		}
	}
	p.Acceptors = 1 + r.Pick(6, 2, 1)
	if r.Chance(0.3) {
		p.AcceptDelayUs = r.Intn(300000)
	}
	if r.Chance(0.4) {
		p.AcceptGapUs = core.Tape(r, r.Range(1, 3), func() int { return r.Intn(T/4 + 1) })
	}
	// Logins queue behind each other in the accept loop: every dial gets a
	// deadline that leaves room for all of them (a dial that still meets its
	// deadline with a conforming listener is evidence, not a violation).
	total := p.AcceptDelayUs
	for k := range ss {
		total += sessionEstimateUs(&ss[k]) + maxOf(p.AcceptGapUs, 0) + 1000
	}
	need := (2*total)/1000 + 1000
	for k := range ss {
		s := &ss[k]
		if need > 4000 && s.API == "dial" {
			s.API = "dialtimeout"
		}
		if need > 25000 && (s.API == "transport-url" || s.API == "transport-urlctx") {
			s.Param = true
		}
		if s.TimeoutMs < need {
			s.TimeoutMs = need + r.Intn(5000)
		}
		if s.CtxMs > 0 && s.CtxMs < need {
			s.CtxMs = need + r.Intn(5000)
		}
	}
	p.Session = ss[0]
	p.More = ss[1:]
	return p
}

// genClient draws the scripted client of arm "cl".
func genClient(r *core.Rand, p *Session) {
	c := &p.Client
	c.Blind = r.Chance(0.6)
	total := len(p.Call) + len(p.Pass) + 2 + len(p.C2S.Data)
	switch r.Pick(4, 3, 3) {
	case 0: // one write
	case 1: // a few cuts anywhere
		c.Cuts = core.Tape(r, r.Range(1, 5), func() int { return r.Intn(total + 1) })
	case 2: // cuts around the line ends
		l1 := len(p.Call) + 1
		l := l1 + len(p.Pass) + 1
		for _, x := range []int{l1 - 1, l1, l1 + 1, l - 1, l, l + 1, l + r.Range(2, 40)} {
			if r.Bool() {
				c.Cuts = append(c.Cuts, x)
			}
		}
	}
	if r.Chance(0.4) {
		sc := []int{50, 5000, 400000}[r.Intn(3)]
		c.DelayUs = core.Tape(r, r.Range(1, 4), func() int { return r.Intn(sc) })
	}
}

func generate(tier string, r *core.Rand) Plan {
	big := tier == "thorough"
	if r.Chance(0.4) {
		return generateMulti(r)
	}
	var p Plan
	p.Arm = []string{"ll", "ls", "cl"}[r.Pick(9, 7, 4)]
	p.Call, p.Pass = genCall(r), genPass(r)
	p.C2S, p.S2C = genStream(r, big), genStream(r, big)
	p.Link = pipe.Plan{AB: genDir(r), BA: genDir(r)}
	if r.Chance(0.3) {
		p.Quiet = true
		p.QuietUs = r.Pick(1, 1) * r.Intn(200000)
	}
	genVia(r, &p.C2S)
	genVia(r, &p.S2C)
	genClose(r, &p.Session, 200000)
	if r.Chance(0.3) {
		p.HoldUs = r.Intn(300000)
	}
	if r.Chance(0.4) {
		p.DialDelayUs = r.Intn(1000000)
	}
	if r.Chance(0.3) {
		p.AcceptDelayUs = r.Intn(300000)
	}
	if r.Chance(0.3) {
		p.ConnectUs = r.Intn(200000)
	}
	p.API = core.Choice(r, apis)
	p.TimeoutMs = genTimeoutMs(r)
	switch p.API {
	case "dialer-url", "transport-url":
		p.Param = r.Bool()
	case "dialer-urlctx", "transport-urlctx":
		p.Param = r.Bool()
		if r.Chance(0.8) {
			p.CtxMs = genTimeoutMs(r)
		}
	}

	hostile := false
	if p.Arm == "ls" {
		sv := &p.Server
		switch r.Pick(7, 1, 12) {
		case 0:
			sv.Kind = "conform"
		case 1:
			sv.Kind = "eager"
		default:
			sv.Kind = core.Choice(r, hostileKinds)
			hostile = true
		}
		if r.Chance(0.5) {
			sv.PromptDelayUs = core.Tape(r, 2, func() int { return r.Pick(1, 1) * r.Intn(300000) })
		}
		if hostile && (sv.Kind == "stall-after-prompt" || r.Chance(0.25)) {
			// back-pressure towards the server: a reply longer than the window blocks the dialler's Write
			p.Link.AB.Window = r.Range(1, 48)
		}
		switch sv.Kind {
		case "stall-after-prompt":
			sv.Off = r.Intn(2)
			if r.Chance(0.7) {
				p.Call = Bin(cleanCall(randBytesNoCR(r, r.Range(60, 400))))
			}
		case "partial", "close-at":
			sv.Off = r.Intn(len(prompt1) + len(prompt2))
		case "garbage-nocr":
			sv.Garbage = genGarbage(r, false)
		case "garbage-cr":
			sv.Garbage = genGarbage(r, true)
		case "drip":
			sv.Garbage = genGarbage(r, r.Bool())
			if len(sv.Garbage) > 64 {
				sv.Garbage = sv.Garbage[:r.Range(1, 64)]
			}
			sv.DripUs = r.Range(1000, 2000000)
		case "slow":
			sv.SlowExtraMs = r.Range(-200, 6000)
		}
	}
	if p.Arm == "cl" {
		genClient(r, &p.Session)
	}

	if !hostile && p.Arm != "cl" {
		// A conforming peer must be able to finish the login well inside the
		// call's deadline: scale the link down for the APIs with a fixed
		// timeout, stretch the timeout for the others.
		fixed := 0
		switch {
		case p.API == "dial":
			fixed = 5000
		case (p.API == "transport-url" || p.API == "transport-urlctx") && !p.Param:
			fixed = 30000
		}
		if fixed > 0 {
			for i := 0; i < 40 && 2*loginEstimateUs(&p)+1000000 > fixed*1000; i++ {
				halve := func(xs []int) {
					for i := range xs {
						xs[i] /= 2
					}
				}
				halve(p.Link.AB.LatUs)
				halve(p.Link.BA.LatUs)
				halve(p.Server.PromptDelayUs)
				p.AcceptDelayUs /= 2
				p.ConnectUs /= 2
			}
		}
		need := (2*loginEstimateUs(&p))/1000 + 1000
		if p.TimeoutMs < need {
			p.TimeoutMs = need + r.Intn(5000)
		}
		if p.CtxMs > 0 && p.CtxMs < need {
			p.CtxMs = need + r.Intn(5000)
		}
	}
	return p
}
