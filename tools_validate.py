#!/usr/bin/env python3
import json, glob, sys
import jsonschema
m=json.load(open('/verif/MANIFEST.json')); s=json.load(open('/root/.vp/MANIFEST.schema.json'))
jsonschema.validate(m,s); print("manifest valid;", len(m["checks"]), "checks")
es=json.load(open('/root/.vp/EVIDENCE.schema.json'))
for f in sorted(glob.glob('/verif/evidence/C*.json')):
    e=json.load(open(f))
    try:
        jsonschema.validate(e,es); print(f, "valid", e["tier"], "evals", e["coverage"]["evaluations"], "distinct", e["coverage"]["distinct_nontrivial"], "viol", e.get("violations"))
    except Exception as ex:
        print(f, "INVALID", str(ex)[:300])
