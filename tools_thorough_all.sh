#!/bin/sh
# Runs the thorough tier of every claimed check in sequence (build first). Used with `vp run`.
# usage: tools_thorough_all.sh [seed] [cap seconds per check] [ids...]
export GOFLAGS=-mod=mod GOPROXY=off GOSUMDB=off GOTOOLCHAIN=local
seed=${1:-1}; cap=${2:-1200}; shift 2 2>/dev/null
ids=${*:-C01 C02 C03 C04 C05 C06 C08 C10 C11 C12 C13 C14 C15 C16 C17 C19}
go1.26.8 build -o bin/verifctl ./cmd/verifctl || exit 2
for id in $ids; do
  echo "=== $id thorough seed=$seed cap=${cap}s $(date +%T)"
  VERIF_SEED=$seed VERIF_WALL_CAP_S=$cap bin/verifctl check $id --tier thorough 2>&1 | grep -E "^check|VIOLATION|signature:|^done|KNOWN-FINDING|INFRA|occurrences" | cut -c1-300
  echo "exit=$?"
done
