package main

import (
	"bufio"
	"bytes"
	"encoding/json"
	"fmt"
	"os"
	"os/exec"
	"path/filepath"
	"sort"
	"strings"
	"sync"
	"time"

	"verif/sim/core"
)

type checkOpts struct {
	ID      string
	Tier    string
	Seed    uint64
	Runs    int
	Workers int
	Keep    bool
}

// finding is a violation candidate collected from the workers.
type finding struct {
	Signature string
	Message   string
	Plan      json.RawMessage
	Run       int
	Death     bool
}

type aggregate struct {
	records    int
	evals      int
	simNanos   int64
	wallUs     int64
	hashes     map[string]struct{}
	nontrivial int
	faults     map[string]int
	probes     map[string]int
	samples    []any
	findings   map[string][]finding // by signature
	stalled    int
	deaths     int // plans that killed their worker and were classified into a finding
	infra      []string
	// stoppedEarly: stripes were abandoned after maxSameDeath identical deaths
	stoppedEarly bool
}

const maxSameDeath = 12

var stripeKnown = loadKnown()

func newAggregate() *aggregate {
	return &aggregate{hashes: map[string]struct{}{}, faults: map[string]int{}, probes: map[string]int{}, findings: map[string][]finding{}}
}

func (a *aggregate) addRecord(r core.Record) {
	a.records++
	o := r.Outcome
	a.evals += o.Evals
	a.simNanos += o.SimNanos
	a.wallUs += r.WallUs
	if o.NonTrivial {
		a.nontrivial++
		if len(o.Hashes) > 0 {
			for _, h := range o.Hashes {
				a.hashes[h] = struct{}{}
			}
		} else {
			a.hashes[o.LogHash] = struct{}{}
		}
	}
	for k, v := range o.Faults {
		a.faults[k] += v
	}
	for k, v := range o.Probes {
		a.probes[k] += v
	}
	if o.Sample != nil && len(a.samples) < 3 && o.NonTrivial {
		a.samples = append(a.samples, map[string]any{"run": r.Run, "case": o.Sample, "violations": len(o.Violations), "log_hash": o.LogHash})
	}
	if o.Stalled {
		a.stalled++
	}
	for _, v := range o.Violations {
		plan := r.Plan
		if len(v.Replay) > 0 {
			plan = v.Replay
		}
		a.findings[v.Signature] = append(a.findings[v.Signature], finding{Signature: v.Signature, Message: v.Message, Plan: plan, Run: r.Run})
	}
}

func readRecords(path string, f func(core.Record)) error {
	fh, err := os.Open(path)
	if err != nil {
		if os.IsNotExist(err) {
			return nil
		}
		return err
	}
	defer fh.Close()
	sc := bufio.NewScanner(fh)
	sc.Buffer(make([]byte, 1<<20), 1<<30)
	for sc.Scan() {
		var r core.Record
		if err := json.Unmarshal(sc.Bytes(), &r); err != nil {
			continue // torn last line of a dead worker
		}
		f(r)
	}
	return sc.Err()
}

// runStripe runs one worker over its stripe of run indices, restarting after
// the run that killed it, and feeds records/deaths into the aggregate.
func runStripe(b *built, opt checkOpts, inf core.Info, w, nRuns int, deadline time.Time, agg *aggregate, mu *sync.Mutex) {
	start := w
	for attempt := 0; start < nRuns; attempt++ {
		out := filepath.Join(b.Scratch, fmt.Sprintf("w%d.%d.jsonl", w, attempt))
		inflight := filepath.Join(b.Scratch, fmt.Sprintf("w%d.inflight", w))
		os.Remove(inflight)
		cfg := core.WorkerConfig{Mode: "range", Property: opt.ID, Tier: opt.Tier, Seed: opt.Seed,
			Start: start, Stride: opt.Workers, End: nRuns, Out: out, Inflight: inflight, WallDeadlineUnix: deadline.Unix()}
		cmd, err := b.workerCmd(cfg, filepath.Join(b.Scratch, fmt.Sprintf("w%d.cfg", w)), memLimit(b))
		if err != nil {
			mu.Lock()
			agg.infra = append(agg.infra, err.Error())
			mu.Unlock()
			return
		}
		var stderr bytes.Buffer
		cmd.Stdout = &stderr
		cmd.Stderr = &stderr
		runErr := runMonitored(cmd, filepath.Join(b.Scratch, fmt.Sprintf("w%d.cfg", w)), inf, &stderr)
		last := -1
		mu.Lock()
		readRecords(out, func(r core.Record) { agg.addRecord(r); last = r.Run })
		mu.Unlock()
		os.Remove(out)
		if runErr == nil {
			return
		}
		// the worker died: which plan was it executing?
		raw, ierr := os.ReadFile(inflight)
		if ierr != nil {
			mu.Lock()
			agg.infra = append(agg.infra, fmt.Sprintf("worker %d exited (%v) with no plan in flight: %s", w, runErr, shortErr(stderr.String(), 2000)))
			mu.Unlock()
			return
		}
		var inf2 core.Inflight
		json.Unmarshal(raw, &inf2)
		if ee, ok := runErr.(*exec.ExitError); ok && ee.ExitCode() == core.ExitRecycle && inf2.Recycle {
			// the worker grew too large and asks for a fresh process
			start = inf2.Run
			if time.Now().After(deadline) {
				return
			}
			continue
		}
		sig, msg := classifyDeath(opt.ID, runErr, stderr.String(), inf)
		mu.Lock()
		if sig == "" {
			agg.infra = append(agg.infra, fmt.Sprintf("worker %d died on run %d: %v: %s", w, inf2.Run, runErr, shortErr(stderr.String(), 2000)))
		} else if sig == "stall" {
			agg.stalled++
		} else {
			agg.findings[sig] = append(agg.findings[sig], finding{Signature: sig, Message: msg, Plan: inf2.Plan, Run: inf2.Run, Death: true})
			agg.deaths++ // executed and accounted for as a finding, although it left no record
			// The same unlisted death over and over (a hang costs a whole
			// watchdog period each time): the verdict is settled, stop this
			// stripe instead of paying for thousands of them.
			same := len(agg.findings[sig])
			if strings.Contains(sig, "/hang/") {
				// hangs are named after the busiest frame, which varies: count them together
				same = 0
				for k, v := range agg.findings {
					if strings.Contains(k, "/hang/") {
						same += len(v)
					}
				}
			}
			if same >= maxSameDeath && stripeKnown.match(opt.ID, sig) == nil {
				if !agg.stoppedEarly {
					agg.stoppedEarly = true
					fmt.Printf("NOTE: %d plans died like %s; the remaining plans of the stripes that meet it are not executed\n", same, sig)
				}
				mu.Unlock()
				return
			}
		}
		mu.Unlock()
		if inf2.Run <= last && inf2.Run < start {
			return
		}
		start = inf2.Run + opt.Workers
		if time.Now().After(deadline) {
			return
		}
	}
}

func memLimit(b *built) int {
	if b.Race {
		return 1 << 40 // the race runtime reserves terabytes of address space
	}
	return 8 << 20 // KiB = 8 GiB
}

// classifyDeath turns the stderr of a dead worker into a violation signature.
// "" means infrastructure trouble, "stall" a watchdog hit for a property that
// promises no termination.
func classifyDeath(prop string, runErr error, stderr string, inf core.Info) (sig, msg string) {
	code := -1
	if ee, ok := runErr.(*exec.ExitError); ok {
		code = ee.ExitCode()
	}
	switch {
	case strings.Contains(stderr, "VERIF-INFRA"):
		return "", ""
	case strings.Contains(stderr, "VERIF-WATCHDOG"):
		frame := hangFrame(stderr)
		if inf.HangIsViolation {
			return prop + "/hang/" + frame, "run did not finish within the wall-clock watchdog; busiest repository frame: " + frame + "\n" + shortErr(stderr, 6000)
		}
		return "stall", ""
	case strings.Contains(stderr, "WARNING: DATA RACE"):
		a, bb := raceFrames(stderr)
		return prop + "/data-race/" + a + "+" + bb, shortErr(stderr[strings.Index(stderr, "WARNING: DATA RACE"):], 6000)
	case strings.Contains(stderr, "fatal error: "):
		i := strings.Index(stderr, "fatal error: ")
		line := stderr[i+len("fatal error: "):]
		if j := strings.IndexByte(line, '\n'); j >= 0 {
			line = line[:j]
		}
		return prop + "/process-death/fatal-" + sanitize(line) + "@" + core.RepoFrame(stderr[i:]) + deathTag(stderr, i), shortErr(stderr[i:], 6000)
	case strings.Contains(stderr, "panic: "):
		i := strings.Index(stderr, "panic: ")
		line := stderr[i+len("panic: "):]
		if j := strings.IndexByte(line, '\n'); j >= 0 {
			line = line[:j]
		}
		return prop + "/process-death/" + core.PanicClass(line) + "@" + core.RepoFrame(stderr[i:]) + deathTag(stderr, i), shortErr(stderr[i:], 6000)
	case strings.Contains(stderr, "VERIF-FATALF"):
		return prop + "/process-death/log-fatal", shortErr(stderr, 3000)
	case code == 137 || strings.Contains(stderr, "signal: killed"):
		return "", ""
	}
	return "", ""
}

// deathTag lets an engine qualify process-death signatures: if it printed
// "VERIF-DEATH-TAG: <tag>" to stderr before executing a plan, the tag of the
// plan that was running when the process died (the last one before offset
// upto) is appended as "/<tag>". Engines that print nothing are unaffected.
func deathTag(stderr string, upto int) string {
	const key = "VERIF-DEATH-TAG: "
	if upto > len(stderr) {
		upto = len(stderr)
	}
	i := strings.LastIndex(stderr[:upto], key)
	if i < 0 {
		return ""
	}
	tag := stderr[i+len(key) : upto]
	if j := strings.IndexByte(tag, '\n'); j >= 0 {
		tag = tag[:j]
	}
	if tag = sanitize(strings.TrimSpace(tag)); tag == "" {
		return ""
	}
	return "/" + tag
}

func sanitize(s string) string {
	s = strings.Map(func(r rune) rune {
		switch {
		case r >= 'a' && r <= 'z', r >= 'A' && r <= 'Z', r >= '0' && r <= '9':
			return r
		case r == ' ' || r == '-' || r == ':' || r == '_':
			return '-'
		}
		return -1
	}, s)
	if len(s) > 40 {
		s = s[:40]
	}
	return s
}

// hangFrame finds the repository frame of a running/runnable goroutine in a
// full stack dump.
func hangFrame(dump string) string {
	blocks := strings.Split(dump, "\n\ngoroutine ")
	pick := func(running bool) string {
		for _, b := range blocks {
			head := b
			if i := strings.IndexByte(b, '\n'); i >= 0 {
				head = b[:i]
			}
			isRun := strings.Contains(head, "[running") || strings.Contains(head, "[runnable")
			if running != isRun {
				continue
			}
			if strings.Contains(b, "github.com/la5nta/wl2k-go/") {
				if f := core.RepoFrame(b); f != "unknown" {
					return f
				}
			}
		}
		return ""
	}
	if f := pick(true); f != "" {
		return f
	}
	if f := pick(false); f != "" {
		return "blocked@" + f
	}
	return "unknown"
}

// raceFrames extracts the two repository functions of a race report.
func raceFrames(report string) (string, string) {
	i := strings.Index(report, "WARNING: DATA RACE")
	report = report[i:]
	parts := strings.SplitN(report, "\n\n", 3)
	fr := []string{"unknown", "unknown"}
	for k := 0; k < 2 && k < len(parts); k++ {
		fr[k] = core.RepoFrame(parts[k])
	}
	sort.Strings(fr)
	return fr[0], fr[1]
}

func runCheck(opt checkOpts) int {
	t0 := time.Now()
	engine, ok := propEngine[opt.ID]
	if !ok {
		fmt.Fprintf(os.Stderr, "unknown or unclaimed property %s\n", opt.ID)
		return 2
	}
	scratch, err := newScratch(opt.ID)
	if err != nil {
		fmt.Fprintln(os.Stderr, err)
		return 2
	}
	if !opt.Keep {
		defer os.RemoveAll(scratch)
	} else {
		fmt.Println("scratch:", scratch)
	}
	b, err := buildEngine(engine, propRace(opt.ID), scratch)
	if err != nil {
		fmt.Fprintln(os.Stderr, "BUILD-FAILURE (exit 2, not a violation):", err)
		return 2
	}
	buildS := time.Since(t0).Seconds()
	inf, err := b.info(opt.ID)
	if err != nil || inf.Level == "" {
		fmt.Fprintln(os.Stderr, "engine does not describe", opt.ID, err)
		return 2
	}
	nRuns := inf.QuickRuns
	wallCap := 10 * time.Minute
	if opt.Tier == "thorough" {
		nRuns = inf.ThoroughRuns
		wallCap = 3 * time.Hour
	}
	if opt.Runs > 0 {
		nRuns = opt.Runs
	}
	if s := os.Getenv("VERIF_WALL_CAP_S"); s != "" {
		if d, err := time.ParseDuration(s + "s"); err == nil {
			wallCap = d
		}
	}
	fmt.Printf("check %s tier=%s VERIF_SEED=%d engine=%s plans=%d workers=%d build=%.1fs\n", opt.ID, opt.Tier, opt.Seed, engine, nRuns, opt.Workers, buildS)

	agg := newAggregate()
	var mu sync.Mutex
	var wg sync.WaitGroup
	deadline := time.Now().Add(wallCap)
	for w := 0; w < opt.Workers; w++ {
		wg.Add(1)
		go func(w int) {
			defer wg.Done()
			runStripe(b, opt, inf, w, nRuns, deadline, agg, &mu)
		}(w)
	}
	wg.Wait()
	runS := time.Since(t0).Seconds() - buildS

	known := loadKnown()
	type reported struct {
		Signature string `json:"signature"`
		Message   string `json:"message"`
		Known     bool   `json:"known"`
		Replay    string `json:"replay,omitempty"`
		Count     int    `json:"count"`
		MinFrom   int    `json:"plan_bytes_before,omitempty"`
		MinTo     int    `json:"plan_bytes_after,omitempty"`
		Stable    string `json:"replay_stability,omitempty"`
	}
	var reports []reported
	var unconfirmed []string
	hangConfirmed := false
	violations := 0
	sigs := make([]string, 0, len(agg.findings))
	for s := range agg.findings {
		sigs = append(sigs, s)
	}
	// most frequent first: the budgeted minimisation goes to what matters most
	sort.Slice(sigs, func(i, j int) bool {
		if len(agg.findings[sigs[i]]) != len(agg.findings[sigs[j]]) {
			return len(agg.findings[sigs[i]]) > len(agg.findings[sigs[j]])
		}
		return sigs[i] < sigs[j]
	})
	minBudget := 30 * time.Second
	if opt.Tier == "thorough" {
		minBudget = 4 * time.Minute
	}
	for i, sig := range sigs {
		fs := agg.findings[sig]
		sort.Slice(fs, func(i, j int) bool { return len(fs[i].Plan) < len(fs[j].Plan) })
		f := fs[0]
		rep := reported{Signature: sig, Message: shortErr(f.Message, 1500), Count: len(fs)}
		if kf := known.match(opt.ID, sig); kf != nil {
			rep.Known = true
			fmt.Printf("KNOWN-FINDING: property=%s %s [%s] (%d occurrences)\n", opt.ID, kf.What, sig, len(fs))
			reports = append(reports, rep)
			continue
		}
		if strings.Contains(sig, "/hang/") {
			// A watchdog hit is only a violation if it reproduces: a loaded
			// machine can push a legitimate run over the wall-clock budget.
			// Confirm in fresh processes with three times the budget.
			wd := inf.WatchdogSec
			if wd <= 0 {
				wd = 60
			}
			os.Setenv("VERIF_WATCHDOG_S", fmt.Sprint(3*wd))
			confirmed := 0
			if hangConfirmed {
				confirmed = 1 // one reproduced hang settles the verdict; the others are listed as observed
			}
			for k := 0; k < 2 && confirmed == 0; k++ {
				if execPlanSignatures(b, opt.ID, f.Plan, inf)[sig] {
					confirmed++
					hangConfirmed = true
				}
			}
			os.Unsetenv("VERIF_WATCHDOG_S")
			if confirmed == 0 {
				fmt.Printf("NOTE: a run of %s exceeded the %d s wall-clock watchdog (%s) but finished when re-executed with %d s: machine load, not a violation\n", opt.ID, wd, sig, 3*wd)
				rep.Message = "unconfirmed watchdog hit (finished on re-execution): " + rep.Message
				unconfirmed = append(unconfirmed, sig)
				reports = append(reports, rep)
				continue
			}
		}
		violations++
		plan := f.Plan
		rep.MinFrom = len(plan)
		if i < 12 && len(plan) > 0 { // minimise the most frequent distinct signatures
			plan = minimise(b, opt.ID, sig, plan, minBudget)
		}
		rep.MinTo = len(plan)
		okN := 0
		for k := 0; k < 3; k++ {
			if got := execPlanSignatures(b, opt.ID, plan, inf); got[sig] {
				okN++
			}
		}
		rep.Stable = fmt.Sprintf("%d/3", okN)
		path := writeReplay(opt, sig, f, plan, rep.Stable)
		rep.Replay = path
		fmt.Printf("VIOLATION property=%s replay=%s\n", opt.ID, path)
		fmt.Printf("  signature: %s\n  seed=%d run=%d occurrences=%d plan %d -> %d bytes, replay stability %s\n  %s\n", sig, opt.Seed, f.Run, len(fs), rep.MinFrom, rep.MinTo, rep.Stable, strings.ReplaceAll(shortErr(f.Message, 600), "\n", "\n  "))
		reports = append(reports, rep)
	}

	wall := time.Since(t0).Seconds()
	ev := map[string]any{
		"property_id": opt.ID,
		"tier":        opt.Tier,
		"seed":        opt.Seed,
		"level":       inf.Level,
		"wall_s":      round1(wall),
		"violations":  violations,
		"assumptions": inf.Assumptions,
		"coverage": map[string]any{
			"evaluations":               agg.evals,
			"plans":                     agg.records,
			"plans_requested":           nRuns,
			"nontrivial_plans":          agg.nontrivial,
			"distinct_nontrivial":       len(agg.hashes),
			"rule":                      inf.Rule,
			"samples":                   agg.samples,
			"runs_per_hour":             int(float64(agg.evals) / (runS + 0.001) * 3600),
			"simulated_seconds":         round1(float64(agg.simNanos) / 1e9),
			"faults_fired":              agg.faults,
			"probes":                    agg.probes,
			"stalled_runs":              agg.stalled,
			"findings":                  reports,
			"real_components":           inf.Real,
			"simulated_components":      inf.Stub,
			"build_s":                   round1(buildS),
			"race_detector":             b.Race,
			"workers":                   opt.Workers,
			"infrastructure_trouble":    agg.infra,
			"unconfirmed_watchdog_hits": unconfirmed,
		},
	}
	evPath := filepath.Join(outRoot(), "evidence", opt.ID+".json")
	os.MkdirAll(filepath.Dir(evPath), 0o755)
	raw, _ := json.MarshalIndent(ev, "", " ")
	if err := os.WriteFile(evPath, raw, 0o644); err != nil {
		fmt.Fprintln(os.Stderr, "cannot write evidence:", err)
		return 2
	}
	zero := []string{}
	for _, k := range core.SortedKeys(agg.probes) {
		if agg.probes[k] == 0 {
			zero = append(zero, k)
		}
	}
	fmt.Printf("done %s: plans=%d executions=%d nontrivial=%d distinct=%d sim=%.0fs wall=%.1fs faults=%v stalled=%d\n",
		opt.ID, agg.records, agg.evals, agg.nontrivial, len(agg.hashes), float64(agg.simNanos)/1e9, wall, agg.faults, agg.stalled)
	if violations > 0 {
		return 1
	}
	if len(agg.infra) > 0 {
		for _, s := range agg.infra {
			fmt.Fprintln(os.Stderr, "INFRA:", s)
		}
		return 2
	}
	if agg.records+agg.deaths < nRuns && time.Now().Before(deadline) {
		fmt.Fprintf(os.Stderr, "INFRA: only %d of %d plans produced a record\n", agg.records+agg.deaths, nRuns)
		return 2
	}
	if agg.stalled*100 > agg.records && agg.stalled > 0 {
		fmt.Fprintf(os.Stderr, "INFRA: %d stalled runs\n", agg.stalled)
		return 2
	}
	return 0
}

func round1(f float64) float64 { return float64(int(f*10+0.5)) / 10 }

// execPlanSignatures executes one plan in a fresh process and returns the set
// of violation signatures it produced (including process death).
func execPlanSignatures(b *built, prop string, plan json.RawMessage, inf core.Info) map[string]bool {
	dir, err := os.MkdirTemp(b.Scratch, "x")
	if err != nil {
		return nil
	}
	defer os.RemoveAll(dir)
	pf := filepath.Join(dir, "plan.json")
	os.WriteFile(pf, plan, 0o644)
	out := filepath.Join(dir, "out.jsonl")
	inflight := filepath.Join(dir, "inflight")
	trace := os.Getenv("VERIF_TRACE") != ""
	cfg := core.WorkerConfig{Mode: "plans", Property: prop, Plans: []string{pf}, Out: out, Inflight: inflight, Trace: trace}
	cmd, err := b.workerCmd(cfg, filepath.Join(dir, "cfg"), memLimit(b))
	if err != nil {
		return nil
	}
	var stderr bytes.Buffer
	cmd.Stdout, cmd.Stderr = &stderr, &stderr
	runErr := runMonitored(cmd, filepath.Join(dir, "cfg"), inf, &stderr)
	sigs := map[string]bool{}
	readRecords(out, func(r core.Record) {
		for _, v := range r.Outcome.Violations {
			sigs[v.Signature] = true
			if trace {
				fmt.Printf("violation: %s\n  %s\n", v.Signature, v.Message)
			}
		}
		if trace {
			for _, l := range r.Outcome.Trace {
				fmt.Println(l)
			}
		}
	})
	if trace && runErr != nil {
		fmt.Println(shortErr(stderr.String(), 8000))
	}
	if runErr != nil {
		if s, _ := classifyDeath(prop, runErr, stderr.String(), inf); s != "" {
			sigs[s] = true
		}
	}
	return sigs
}

func sigFile(sig string) string {
	s := strings.Map(func(r rune) rune {
		switch {
		case r >= 'a' && r <= 'z', r >= 'A' && r <= 'Z', r >= '0' && r <= '9', r == '-', r == '.':
			return r
		}
		return '_'
	}, sig)
	if len(s) > 120 {
		s = s[:120]
	}
	return s
}

func writeReplay(opt checkOpts, sig string, f finding, plan json.RawMessage, stable string) string {
	dir := filepath.Join(outRoot(), "replays", opt.ID)
	os.MkdirAll(dir, 0o755)
	path := filepath.Join(dir, sigFile(sig)+".json")
	doc := map[string]any{
		"property":         opt.ID,
		"signature":        sig,
		"message":          shortErr(f.Message, 4000),
		"seed":             opt.Seed,
		"tier":             opt.Tier,
		"run":              f.Run,
		"replay_stability": stable,
		"plan":             plan,
	}
	raw, _ := json.MarshalIndent(doc, "", " ")
	os.WriteFile(path, raw, 0o644)
	return path
}
