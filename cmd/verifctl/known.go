package main

import (
	"encoding/json"
	"os"
	"path/filepath"
	"strings"
)

// knownFinding is one entry of /verif/known_findings.json (committed, never
// written at run time). status "known": a genuine defect recorded rather than
// repaired; its signature is reported as KNOWN-FINDING and does not fail the
// check. status "fixed": history only, suppresses nothing.
type knownFinding struct {
	Property  string `json:"property"`
	Signature string `json:"signature"` // exact, or prefix when it ends in '*'
	What      string `json:"what"`
	Status    string `json:"status"`
	Commit    string `json:"commit,omitempty"`
}

type knownSet struct {
	Findings []knownFinding `json:"findings"`
}

func loadKnown() *knownSet {
	ks := &knownSet{}
	path := filepath.Join(verifRoot(), "known_findings.json")
	if p := os.Getenv("VERIF_KNOWN"); p != "" {
		path = p // sensitivity work: a private list (e.g. the unchanged tree's findings) so that only what a mutant adds is reported and minimised
	}
	raw, err := os.ReadFile(path)
	if err != nil {
		return ks
	}
	json.Unmarshal(raw, ks)
	return ks
}

func (k *knownSet) match(prop, sig string) *knownFinding {
	for i := range k.Findings {
		f := &k.Findings[i]
		if f.Status != "known" || f.Property != prop {
			continue
		}
		if f.Signature == sig {
			return f
		}
		if strings.HasSuffix(f.Signature, "*") && strings.HasPrefix(sig, strings.TrimSuffix(f.Signature, "*")) {
			return f
		}
	}
	return nil
}
