package main

import (
	"bytes"
	"encoding/json"
	"fmt"
	"os"
	"os/exec"
	"path/filepath"
	"strconv"
	"strings"
	"time"

	"verif/sim/core"
)

const goBin = "go1.26.8"

func goEnv() []string {
	env := os.Environ()
	env = append(env, "GOFLAGS=-mod=mod", "GOPROXY=off", "GOSUMDB=off", "GOTOOLCHAIN=local", "CGO_ENABLED=1")
	return env
}

// built is an engine binary compiled from /repo's working tree.
type built struct {
	Engine  string
	Bin     string
	Scratch string
	Race    bool
}

func newScratch(tag string) (string, error) {
	return os.MkdirTemp("", "verif-"+tag+"-")
}

// buildEngine compiles engines/<engine> with the import-swap overlay.
func buildEngine(engine string, race bool, scratch string) (*built, error) {
	ov, err := buildOverlay(repoRoot, scratch, engineSwaps[engine], yieldFiles[engine])
	if err != nil {
		return nil, err
	}
	bin := filepath.Join(scratch, engine+".test")
	args := []string{"test", "-c", "-overlay", ov, "-o", bin}
	if race {
		args = append(args, "-race")
	}
	args = append(args, "./engines/"+engine)
	cmd := exec.Command(goBin, args...)
	cmd.Dir = verifRoot()
	cmd.Env = goEnv()
	var out bytes.Buffer
	cmd.Stdout, cmd.Stderr = &out, &out
	if err := cmd.Run(); err != nil {
		return nil, fmt.Errorf("build of %s failed: %v\n%s", engine, err, out.String())
	}
	return &built{Engine: engine, Bin: bin, Scratch: scratch, Race: race}, nil
}

// runWorker starts the test binary with a worker configuration.
func (b *built) workerCmd(cfg core.WorkerConfig, cfgPath string, memLimitKB int) (*exec.Cmd, error) {
	raw, _ := json.Marshal(cfg)
	if err := os.WriteFile(cfgPath, raw, 0o644); err != nil {
		return nil, err
	}
	// ulimit -v per worker (no memory limit in the sandbox otherwise)
	sh := fmt.Sprintf("ulimit -v %d 2>/dev/null; exec %q -test.run '^TestWorker$' -test.timeout 0 -test.count 1", memLimitKB, b.Bin)
	cmd := exec.Command("/bin/sh", "-c", sh)
	cmd.Dir = b.Scratch
	env := os.Environ()
	env = append(env, "VERIF_WORKER="+cfgPath, "VERIF_HEARTBEAT="+cfgPath+".hb", "GOMAXPROCS=1", "GODEBUG=asyncpreemptoff=1", "GORACE=halt_on_error=1 exitcode=66")
	cmd.Env = env
	return cmd, nil
}

// info asks the binary for the static description of a property's check.
func (b *built) info(prop string) (core.Info, error) {
	var inf core.Info
	out := filepath.Join(b.Scratch, "info.json")
	cmd, err := b.workerCmd(core.WorkerConfig{Mode: "info", Property: prop, Out: out}, filepath.Join(b.Scratch, "info.cfg"), 8<<20)
	if err != nil {
		return inf, err
	}
	if o, err := cmd.CombinedOutput(); err != nil {
		return inf, fmt.Errorf("info: %v\n%s", err, o)
	}
	raw, err := os.ReadFile(out)
	if err != nil {
		return inf, err
	}
	err = json.Unmarshal(raw, &inf)
	return inf, err
}

// propRace: which properties need a -race binary (decided before the build).
func propRace(id string) bool { return id == "C17" || id == "C19" }

func shortErr(s string, n int) string {
	s = strings.TrimSpace(s)
	if len(s) > n {
		return s[:n] + "..."
	}
	return s
}

// runMonitored runs a worker and watches its heartbeat file (sim/core
// heartbeat): a worker that has not started an execution for the watchdog
// period plus a grace - its own watchdog goroutine cannot run while the code
// under test spins in a loop without function calls - is killed, and the
// text a watchdog hit would have left is put in its place.
func runMonitored(cmd *exec.Cmd, cfgPath string, inf core.Info, stderr *bytes.Buffer) error {
	wd := inf.WatchdogSec
	if wd <= 0 {
		wd = 60
	}
	if s := os.Getenv("VERIF_WATCHDOG_S"); s != "" {
		if n, err := strconv.Atoi(s); err == nil && n > 0 {
			wd = n
		}
	}
	limit := time.Duration(wd)*time.Second + 45*time.Second
	hb := cfgPath + ".hb"
	os.Remove(hb)
	if err := cmd.Start(); err != nil {
		return err
	}
	done := make(chan error, 1)
	go func() { done <- cmd.Wait() }()
	tick := time.NewTicker(2 * time.Second)
	defer tick.Stop()
	started := time.Now()
	for {
		select {
		case err := <-done:
			return err
		case <-tick.C:
			last := started
			if st, err := os.Stat(hb); err == nil && st.ModTime().After(last) {
				last = st.ModTime()
			}
			if time.Since(last) > limit {
				cmd.Process.Kill()
				err := <-done
				fmt.Fprintf(stderr, "\nVERIF-WATCHDOG (parent) no execution started for %v: the worker did not answer its own watchdog (a loop without function calls cannot be interrupted at GOMAXPROCS=1) and was killed\n", limit)
				return err
			}
		}
	}
}
