package main

import (
	"bytes"
	"encoding/json"
	"fmt"
	"sort"
	"time"
)

// minimise shrinks a plan (plain JSON) while a fresh-process execution still
// produces a violation with the same signature (DESIGN 2.5).
func minimise(b *built, prop, sig string, plan json.RawMessage, budget time.Duration) json.RawMessage {
	inf, _ := b.info(prop)
	deadline := time.Now().Add(budget)
	var doc any
	dec := json.NewDecoder(bytes.NewReader(plan))
	dec.UseNumber()
	if err := dec.Decode(&doc); err != nil {
		return plan
	}
	tries := 0
	test := func(d any) bool {
		if time.Now().After(deadline) {
			return false
		}
		raw, err := json.Marshal(d)
		if err != nil {
			return false
		}
		tries++
		return execPlanSignatures(b, prop, raw, inf)[sig]
	}
	if !test(doc) {
		return plan // does not reproduce in a fresh process: keep as is
	}
	for pass := 0; pass < 6 && time.Now().Before(deadline); pass++ {
		before, _ := json.Marshal(doc)
		doc = reduceNode(doc, func(n any) any { return n }, test, deadline)
		after, _ := json.Marshal(doc)
		if len(after) >= len(before) {
			break
		}
	}
	out, _ := json.Marshal(doc)
	fmt.Printf("  minimised %d -> %d bytes in %d candidate executions\n", len(plan), len(out), tries)
	return out
}

// reduceNode shrinks node in place within its document. wrap(x) yields the
// whole document with node replaced by x.
func reduceNode(node any, wrap func(any) any, test func(any) bool, deadline time.Time) any {
	if time.Now().After(deadline) {
		return node
	}
	switch v := node.(type) {
	case []any:
		// ddmin over the elements
		for chunk := (len(v) + 1) / 2; chunk >= 1; {
			removed := false
			for i := 0; i+chunk <= len(v) && len(v) > 0; {
				cand := append(append([]any{}, v[:i]...), v[i+chunk:]...)
				if test(wrap(cand)) {
					v = cand
					removed = true
				} else {
					i += chunk
				}
				if time.Now().After(deadline) {
					return v
				}
			}
			if chunk == 1 && !removed {
				break
			}
			if chunk > 1 {
				chunk /= 2
			} else if !removed {
				break
			}
		}
		for i := range v {
			i := i
			v[i] = reduceNode(v[i], func(x any) any {
				c := append([]any{}, v...)
				c[i] = x
				return wrap(c)
			}, test, deadline)
		}
		return v
	case map[string]any:
		keys := make([]string, 0, len(v))
		for k := range v {
			keys = append(keys, k)
		}
		sort.Strings(keys)
		for _, k := range keys {
			// try dropping the key altogether (executors are total)
			c := map[string]any{}
			for kk, vv := range v {
				if kk != k {
					c[kk] = vv
				}
			}
			if test(wrap(c)) {
				v = c
				continue
			}
			k := k
			v[k] = reduceNode(v[k], func(x any) any {
				c := map[string]any{}
				for kk, vv := range v {
					c[kk] = vv
				}
				c[k] = x
				return wrap(c)
			}, test, deadline)
		}
		return v
	case json.Number:
		n, err := v.Int64()
		if err != nil || n == 0 {
			return v
		}
		cands := []int64{0, n / 2, n - 1}
		if n < 0 {
			cands = []int64{0, -n, n / 2, n + 1}
		}
		for _, c := range cands {
			if c == n {
				continue
			}
			if test(wrap(json.Number(fmt.Sprint(c)))) {
				return reduceNode(json.Number(fmt.Sprint(c)), wrap, test, deadline)
			}
		}
		return v
	case string:
		if v == "" {
			return v
		}
		for _, c := range []string{"", v[:len(v)/2], v[:len(v)/4*4/2], v[:(len(v)-1)/4*4]} {
			if c == v || len(c) >= len(v) {
				continue
			}
			if test(wrap(c)) {
				return reduceNode(c, wrap, test, deadline)
			}
		}
		return v
	case bool:
		if v && test(wrap(false)) {
			return false
		}
		return v
	}
	return node
}
