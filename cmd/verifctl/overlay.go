package main

import (
	"encoding/json"
	"fmt"
	"go/ast"
	"go/parser"
	"go/token"
	"os"
	"path/filepath"
	"sort"
	"strconv"
	"strings"
)

// swap says: in every non-test .go file of /repo/<Dir>, replace the import of
// each key by the shim package named by its value (DESIGN 2.1). The replacement
// happens inside the import spec, on the same line, with an explicit alias equal
// to the original package name, so no other byte of the file changes and line
// numbers in stack traces remain those of /repo.
type swap struct {
	Dir     string
	Imports map[string]string
}

var engineSwaps = map[string][]swap{
	"fbbsim": {
		{Dir: "fbb", Imports: map[string]string{"os": "verif/sim/shim/envos"}},
		{Dir: "mailbox", Imports: map[string]string{"os": "verif/sim/shim/os", "io/ioutil": "verif/sim/shim/ioutil", "log": "verif/sim/shim/log"}},
	},
	"codecsim": {},
	"mboxsim": {
		{Dir: "mailbox", Imports: map[string]string{"os": "verif/sim/shim/os", "io/ioutil": "verif/sim/shim/ioutil", "log": "verif/sim/shim/log"}},
	},
	"telnetsim": {
		{Dir: "transport/telnet", Imports: map[string]string{"net": "verif/sim/shim/net"}},
	},
	"agwsim": {
		{Dir: "transport/ax25/agwpe", Imports: map[string]string{"net": "verif/sim/shim/net"}},
	},
	"ardopsim": {
		{Dir: "transport/ardop", Imports: map[string]string{"net": "verif/sim/shim/net"}},
	},
	"dialsim": {
		{Dir: "transport", Imports: map[string]string{"sync": "verif/sim/shim/simsync"}},
	},
}

// yieldFiles: library files in which the overlay also puts a call to
// simyield.P() in front of every statement (same line, so line numbers stay
// those of /repo). With no hook installed the call is one atomic load; a run
// that enables yields lets the plan pause goroutines at these points (DESIGN
// 8.9). Files whose inner loops run per bit or per tree node are left out for
// speed, and so is every package that takes locks of its own: a goroutine
// must never stand still while it holds a sync.Mutex.
var yieldFiles = map[string][]string{
	"fbbsim":   {"fbb/secure.go", "fbb/handshake.go", "fbb/b2f.go", "fbb/wl2k.go", "fbb/proposal.go", "fbb/helpers.go", "lzhuf/writer.go", "lzhuf/reader.go", "lzhuf/crc.go"},
	"codecsim": {"lzhuf/writer.go", "lzhuf/reader.go", "lzhuf/crc.go"},
	// the registry takes a lock: its package gets sim/shim/simsync for "sync",
	// which keeps yield points inside critical sections from pausing
	"dialsim": {"transport/dial.go"},
}

const yieldImport = "verif/sim/shim/simyield"

// insertYields prefixes every statement of every function body in src with
// "simyield.P(); " and puts the import behind the package clause, on its line.
func insertYields(path string, src []byte) ([]byte, error) {
	fset := token.NewFileSet()
	f, err := parser.ParseFile(fset, path, src, parser.ParseComments)
	if err != nil {
		return nil, fmt.Errorf("overlay: parse %s: %w", path, err)
	}
	var offs []int
	list := func(stmts []ast.Stmt) {
		for _, st := range stmts {
			switch st.(type) {
			case *ast.CaseClause, *ast.CommClause, *ast.EmptyStmt:
				continue
			}
			offs = append(offs, fset.Position(st.Pos()).Offset)
		}
	}
	ast.Inspect(f, func(n ast.Node) bool {
		switch x := n.(type) {
		case *ast.BlockStmt:
			list(x.List)
		case *ast.CaseClause:
			list(x.Body)
		case *ast.CommClause:
			list(x.Body)
		}
		return true
	})
	if len(offs) == 0 {
		return src, nil
	}
	sort.Sort(sort.Reverse(sort.IntSlice(offs)))
	out := append([]byte(nil), src...)
	for _, o := range offs {
		out = append(out[:o], append([]byte("simyield.P(); "), out[o:]...)...)
	}
	// the import goes on the line of the package clause
	end := fset.Position(f.Name.End()).Offset
	out = append(out[:end], append([]byte("; import simyield "+strconv.Quote(yieldImport)), out[end:]...)...)
	return out, nil
}

// buildOverlay writes rewritten copies into scratch and returns the overlay file path.
//
// Sources are read from /repo's working tree. When $VERIF_REPO names another
// copy of the repository (mutant testing without touching /repo), sources are
// read from there instead and every non-test .go file that differs from /repo's
// is overlaid too; overlay keys are always /repo paths because that is where the
// module replacement points.
func buildOverlay(repo, scratch string, swaps []swap, yield []string) (string, error) {
	yieldSet := map[string]bool{}
	for _, y := range yield {
		yieldSet[y] = true
	}
	replace := map[string]string{}
	src := repo
	if alt := os.Getenv("VERIF_REPO"); alt != "" {
		src = alt
	}
	swapFor := map[string]map[string]string{}
	for _, sw := range swaps {
		// skip swaps whose shim packages do not exist yet
		missing := false
		for _, shim := range sw.Imports {
			if _, err := os.Stat(filepath.Join(verifRoot(), strings.TrimPrefix(shim, "verif/"))); err != nil {
				missing = true
			}
		}
		if !missing {
			swapFor[sw.Dir] = sw.Imports
		}
	}
	err := filepath.WalkDir(src, func(path string, d os.DirEntry, err error) error {
		if err != nil {
			return err
		}
		rel, _ := filepath.Rel(src, path)
		if d.IsDir() {
			if d.Name() == ".git" || rel == "cmd" || d.Name() == "testdata" {
				return filepath.SkipDir
			}
			return nil
		}
		name := d.Name()
		if !strings.HasSuffix(name, ".go") || strings.HasSuffix(name, "_test.go") {
			return nil
		}
		dir := filepath.Dir(rel)
		imports := swapFor[dir]
		out, changed, err := rewriteImports(path, imports)
		if err != nil {
			return err
		}
		if yieldSet[filepath.ToSlash(rel)] {
			y, yerr := insertYields(path, out)
			if yerr != nil {
				return yerr
			}
			out, changed = y, true
		}
		if src != repo && !changed {
			orig, err := os.ReadFile(filepath.Join(repo, rel))
			if err != nil || !bytesEqual(orig, out) {
				changed = true
			}
		}
		if !changed {
			return nil
		}
		dst := filepath.Join(scratch, "overlay", rel)
		if err := os.MkdirAll(filepath.Dir(dst), 0o755); err != nil {
			return err
		}
		if err := os.WriteFile(dst, out, 0o644); err != nil {
			return err
		}
		replace[filepath.Join(repo, rel)] = dst
		return nil
	})
	if err != nil {
		return "", fmt.Errorf("overlay: %w", err)
	}
	ov := struct {
		Replace map[string]string
	}{replace}
	b, _ := json.MarshalIndent(ov, "", " ")
	p := filepath.Join(scratch, "overlay.json")
	return p, os.WriteFile(p, b, 0o644)
}

func bytesEqual(a, b []byte) bool { return string(a) == string(b) }

func rewriteImports(path string, imports map[string]string) ([]byte, bool, error) {
	src, err := os.ReadFile(path)
	if err != nil {
		return nil, false, err
	}
	fset := token.NewFileSet()
	f, err := parser.ParseFile(fset, path, src, parser.ImportsOnly)
	if err != nil {
		return nil, false, fmt.Errorf("overlay: parse %s: %w", path, err)
	}
	type edit struct {
		start, end int
		text       string
	}
	var edits []edit
	for _, spec := range f.Imports {
		p, _ := strconv.Unquote(spec.Path.Value)
		shim, ok := imports[p]
		if !ok {
			continue
		}
		start := fset.Position(spec.Path.Pos()).Offset
		end := fset.Position(spec.Path.End()).Offset
		text := strconv.Quote(shim)
		if spec.Name == nil {
			base := p[strings.LastIndex(p, "/")+1:]
			text = base + " " + text
		}
		edits = append(edits, edit{start, end, text})
	}
	if len(edits) == 0 {
		return src, false, nil
	}
	sort.Slice(edits, func(i, j int) bool { return edits[i].start > edits[j].start })
	out := append([]byte(nil), src...)
	for _, e := range edits {
		out = append(out[:e.start], append([]byte(e.text), out[e.end:]...)...)
	}
	return out, true, nil
}
