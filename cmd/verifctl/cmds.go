package main

import (
	"bytes"
	"encoding/json"
	"fmt"
	"os"
	"path/filepath"
	"sort"
	"strings"
	"sync"

	"verif/sim/core"
)

// runReplay re-executes a replay file in a fresh process built from /repo's
// current tree and prints the same VIOLATION line if it still fails.
func runReplay(path string) int {
	raw, err := os.ReadFile(path)
	if err != nil {
		fmt.Fprintln(os.Stderr, err)
		return 2
	}
	var doc struct {
		Property  string          `json:"property"`
		Signature string          `json:"signature"`
		Plan      json.RawMessage `json:"plan"`
	}
	if err := json.Unmarshal(raw, &doc); err != nil || doc.Property == "" {
		fmt.Fprintln(os.Stderr, "not a replay file:", err)
		return 2
	}
	engine, ok := propEngine[doc.Property]
	if !ok {
		fmt.Fprintln(os.Stderr, "unknown property", doc.Property)
		return 2
	}
	scratch, err := newScratch("replay")
	if err != nil {
		return 2
	}
	defer os.RemoveAll(scratch)
	b, err := buildEngine(engine, propRace(doc.Property), scratch)
	if err != nil {
		fmt.Fprintln(os.Stderr, "BUILD-FAILURE:", err)
		return 2
	}
	inf, _ := b.info(doc.Property)
	sigs := execPlanSignatures(b, doc.Property, doc.Plan, inf)
	var got []string
	for s := range sigs {
		got = append(got, s)
	}
	sort.Strings(got)
	if sigs[doc.Signature] {
		abs, _ := filepath.Abs(path)
		fmt.Printf("VIOLATION property=%s replay=%s\n  signature: %s\n", doc.Property, abs, doc.Signature)
		return 1
	}
	fmt.Printf("replay of %s did not reproduce %s; signatures seen: %v\n", path, doc.Signature, got)
	return 0
}

// runDeterminism: the same run indices executed three times (different worker
// counts and GOMAXPROCS settings) must give identical event-log hashes.
func runDeterminism(id, tier string, runs int) int {
	engine, ok := propEngine[id]
	if !ok {
		return 2
	}
	scratch, err := newScratch("det")
	if err != nil {
		return 2
	}
	defer os.RemoveAll(scratch)
	b, err := buildEngine(engine, propRace(id), scratch)
	if err != nil {
		fmt.Fprintln(os.Stderr, "BUILD-FAILURE:", err)
		return 2
	}
	type cfgT struct {
		workers int
		procs   string
	}
	cfgs := []cfgT{{1, "1"}, {4, "1"}, {16, "1"}, {16, "4"}}
	results := make([]map[int]string, len(cfgs))
	for ci, c := range cfgs {
		results[ci] = map[int]string{}
		var wg sync.WaitGroup
		var mu sync.Mutex
		for w := 0; w < c.workers; w++ {
			wg.Add(1)
			go func(w int) {
				defer wg.Done()
				out := filepath.Join(scratch, fmt.Sprintf("d%d.%d.jsonl", ci, w))
				inflight := filepath.Join(scratch, fmt.Sprintf("d%d.%d.inflight", ci, w))
				// A run that kills the worker (panic on a goroutine of the library)
				// is part of the picture: it is recorded as "died:<signature>" and
				// the stripe goes on behind it, as in check.
				for start := w; start < runs; {
					os.Remove(inflight)
					cfg := core.WorkerConfig{Mode: "range", Property: id, Tier: tier, Seed: 1, Start: start, Stride: c.workers, End: runs, Out: out, Inflight: inflight}
					cmd, _ := b.workerCmd(cfg, filepath.Join(scratch, fmt.Sprintf("d%d.%d.cfg", ci, w)), memLimit(b))
					for i, e := range cmd.Env {
						if strings.HasPrefix(e, "GOMAXPROCS=") {
							cmd.Env[i] = "GOMAXPROCS=" + c.procs
						}
					}
					var se bytes.Buffer
					cmd.Stdout = &se
					cmd.Stderr = &se
					runErr := cmd.Run()
					if runErr == nil {
						break
					}
					raw, ierr := os.ReadFile(inflight)
					if ierr != nil {
						break
					}
					var inf2 core.Inflight
					if json.Unmarshal(raw, &inf2) != nil || inf2.Run < start {
						break
					}
					if inf2.Recycle {
						start = inf2.Run
						continue
					}
					sig, _ := classifyDeath(id, runErr, se.String(), core.Info{})
					mu.Lock()
					results[ci][inf2.Run] = "died:" + sig
					mu.Unlock()
					start = inf2.Run + c.workers
				}
				mu.Lock()
				readRecords(out, func(r core.Record) { results[ci][r.Run] = r.Outcome.LogHash })
				mu.Unlock()
			}(w)
		}
		wg.Wait()
	}
	diverged := 0
	for run := 0; run < runs; run++ {
		ref, ok := results[0][run]
		for ci := range cfgs {
			h, ok2 := results[ci][run]
			if !ok || !ok2 || h != ref {
				if ci >= 3 {
					fmt.Printf("run %d: differs at GOMAXPROCS=4 (%s vs %s) [informational]\n", run, h, ref)
					continue
				}
				diverged++
				fmt.Printf("run %d: config %d hash %q vs %q\n", run, ci, h, ref)
			}
		}
	}
	fmt.Printf("determinism %s: %d run indices x %d configurations, %d divergent at GOMAXPROCS=1\n", id, runs, len(cfgs), diverged)
	if diverged > 0 {
		return 1
	}
	return 0
}

// runWarm compiles every engine once so that later checks hit the build cache.
func runWarm() int {
	engines := map[string]bool{}
	for _, e := range propEngine {
		engines[e] = true
	}
	rc := 0
	for _, e := range sortedKeys(engines) {
		if _, err := os.Stat(filepath.Join(verifRoot(), "engines", e)); err != nil {
			continue
		}
		for _, race := range []bool{false, true} {
			if race && e != "fbbsim" && e != "dialsim" {
				continue
			}
			scratch, err := newScratch("warm")
			if err != nil {
				return 2
			}
			_, err = buildEngine(e, race, scratch)
			os.RemoveAll(scratch)
			if err != nil {
				fmt.Fprintln(os.Stderr, err)
				rc = 2
			} else {
				fmt.Printf("warm: %s race=%v ok\n", e, race)
			}
		}
	}
	return rc
}

func sortedKeys(m map[string]bool) []string {
	var ks []string
	for k := range m {
		ks = append(ks, k)
	}
	sort.Strings(ks)
	return ks
}

// runTrace prints the full event log of one generated run.
func runTrace(id, tier string, run int) int {
	engine, ok := propEngine[id]
	if !ok {
		return 2
	}
	scratch, err := newScratch("trace")
	if err != nil {
		return 2
	}
	defer os.RemoveAll(scratch)
	b, err := buildEngine(engine, propRace(id), scratch)
	if err != nil {
		fmt.Fprintln(os.Stderr, err)
		return 2
	}
	seed := uint64(1)
	if s := os.Getenv("VERIF_SEED"); s != "" {
		fmt.Sscan(s, &seed)
	}
	out := filepath.Join(scratch, "t.jsonl")
	cfg := core.WorkerConfig{Mode: "range", Property: id, Tier: tier, Seed: seed, Start: run, Stride: 1, End: run + 1, Out: out, Trace: true}
	cmd, _ := b.workerCmd(cfg, filepath.Join(scratch, "t.cfg"), memLimit(b))
	cmd.Stderr = os.Stderr
	cmd.Stdout = os.Stderr
	cmd.Run()
	readRecords(out, func(r core.Record) {
		fmt.Printf("plan: %s\n", r.Plan)
		for _, l := range r.Outcome.Trace {
			fmt.Println(l)
		}
		r.Outcome.Trace = nil
		o, _ := json.MarshalIndent(r.Outcome, "", " ")
		fmt.Printf("outcome: %s\n", o)
	})
	return 0
}
