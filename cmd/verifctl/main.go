// verifctl builds an engine's test binary from /repo's current working tree
// (import-swap overlay, DESIGN 2.1), runs seeded simulated runs on 16 worker
// processes, classifies and minimises violations, and writes the evidence file.
package main

import (
	"flag"
	"fmt"
	"os"
	"path/filepath"
	"strconv"
)

const repoRoot = "/repo"

// outRoot is where evidence and replay files go: /verif normally, a scratch
// directory when the check runs against an alternative repository copy.
func outRoot() string {
	if os.Getenv("VERIF_REPO") != "" {
		d := envOr("VERIF_OUT", "/tmp/verif-alt-out")
		os.MkdirAll(d, 0o755)
		return d
	}
	return verifRoot()
}

func verifRoot() string {
	if v := os.Getenv("VERIF_ROOT"); v != "" {
		return v
	}
	// the binary lives in <root>/bin
	exe, err := os.Executable()
	if err == nil {
		d := filepath.Dir(filepath.Dir(exe))
		if _, err := os.Stat(filepath.Join(d, "properties.jsonl")); err == nil {
			return d
		}
	}
	wd, _ := os.Getwd()
	return wd
}

// propEngine maps every claimed property to its engine package.
var propEngine = map[string]string{
	"C01": "fbbsim", "C02": "fbbsim", "C03": "fbbsim", "C04": "fbbsim", "C05": "fbbsim",
	"C16": "fbbsim", "C17": "fbbsim",
	"C06": "codecsim", "C08": "codecsim",
	"C10": "mboxsim", "C11": "mboxsim", "C12": "mboxsim",
	"C13": "agwsim", "C14": "ardopsim", "C15": "telnetsim", "C19": "dialsim",
}

func usage() {
	fmt.Fprintln(os.Stderr, `usage:
  verifctl check <id> [--tier quick|thorough] [--runs N] [--workers N] [--keep]
  verifctl replay <file>
  verifctl determinism <id> [--runs N]
  verifctl warm
  verifctl trace <id> <run> [--tier T]      print the event log of one run`)
	os.Exit(2)
}

func main() {
	if len(os.Args) < 2 {
		usage()
	}
	cmd := os.Args[1]
	args := os.Args[2:]
	switch cmd {
	case "check":
		if len(args) < 1 {
			usage()
		}
		id := args[0]
		fs := flag.NewFlagSet("check", flag.ExitOnError)
		tier := fs.String("tier", envOr("VERIF_TIER", "quick"), "quick|thorough")
		runs := fs.Int("runs", 0, "override number of plans")
		workers := fs.Int("workers", 16, "worker processes")
		keep := fs.Bool("keep", false, "keep scratch dir")
		fs.Parse(args[1:])
		seed := uint64(1)
		if s := os.Getenv("VERIF_SEED"); s != "" {
			if n, err := strconv.ParseUint(s, 10, 64); err == nil {
				seed = n
			}
		}
		os.Exit(runCheck(checkOpts{ID: id, Tier: *tier, Seed: seed, Runs: *runs, Workers: *workers, Keep: *keep}))
	case "replay":
		if len(args) < 1 {
			usage()
		}
		os.Exit(runReplay(args[0]))
	case "determinism":
		if len(args) < 1 {
			usage()
		}
		fs := flag.NewFlagSet("determinism", flag.ExitOnError)
		runs := fs.Int("runs", 200, "run indices")
		tier := fs.String("tier", "quick", "tier")
		fs.Parse(args[1:])
		os.Exit(runDeterminism(args[0], *tier, *runs))
	case "warm":
		os.Exit(runWarm())
	case "overlay": // verifctl overlay <engine> <scratch dir>: write the import-swap overlay and print its path
		if len(args) < 2 {
			usage()
		}
		os.MkdirAll(args[1], 0o755)
		p, err := buildOverlay(repoRoot, args[1], engineSwaps[args[0]], yieldFiles[args[0]])
		if err != nil {
			fmt.Fprintln(os.Stderr, err)
			os.Exit(2)
		}
		fmt.Println(p)
	case "trace":
		if len(args) < 2 {
			usage()
		}
		fs := flag.NewFlagSet("trace", flag.ExitOnError)
		tier := fs.String("tier", "quick", "tier")
		fs.Parse(args[2:])
		run, _ := strconv.Atoi(args[1])
		os.Exit(runTrace(args[0], *tier, run))
	default:
		usage()
	}
}

func envOr(k, def string) string {
	if v := os.Getenv(k); v != "" {
		return v
	}
	return def
}
