#!/usr/bin/env python3
"""Regenerates the seeded-change table in DESIGN.md (between the SEEDED-TABLE markers) from /verif/seeded/*/meta.json."""
import json, glob, os, re
rows = []
for d in sorted(glob.glob('/verif/seeded/*')):
    try: m = json.load(open(d + '/meta.json'))
    except Exception: continue
    ev = m.get('verif_eval', {})
    prop = m.get('breaks_property') or m.get('property')
    chk = ev.get('checks', {}).get(prop, {})
    others = [p for p, c in ev.get('checks', {}).items() if p != prop and c.get('detected')]
    conf = all(ev.get(k) for k in ('suite_passes_with_patch', 'demo_fails_with_patch', 'demo_passes_without_patch'))
    sig = (chk.get('signatures') or ['-'])[0]
    title = m.get('title', '').replace('|', '/')
    if len(title) > 110: title = title[:107] + '...'
    needs = (m.get('needs_to_manifest') or '').replace('|', '/').replace('\n', ' ')
    if len(needs) > 160: needs = needs[:157] + '...'
    rows.append(f"| {os.path.basename(d)} | {title} | {needs} | {'yes' if conf else 'NOT CONFIRMED'} | {'**caught**' if chk.get('detected') else '**MISSED**'} `{sig}`" + (f" (also {', '.join(others)})" if others else '') + f" | {m.get('strengthened','')} |")
table = "| seed | change (as described by its author) | needs to manifest | claims confirmed (suite passes, demo fails with / passes without) | result of the property's quick check | strengthening it prompted |\n|---|---|---|---|---|---|\n" + "\n".join(rows)
p = '/verif/DESIGN.md'; s = open(p).read()
repl = '<!-- SEEDED-TABLE -->\n' + table + '\n<!-- /SEEDED-TABLE -->'
s = re.sub(r'<!-- SEEDED-TABLE -->.*?<!-- /SEEDED-TABLE -->', lambda m: repl, s, flags=re.S)
open(p, 'w').write(s)
n = len(rows); c = sum('**caught**' in r for r in rows)
print(f"{n} seeds, {c} caught")
