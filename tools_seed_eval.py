#!/usr/bin/env python3
"""Evaluate one seeded change: confirm its own claims in a scratch copy of /repo, then run /verif's check(s) against it.

usage: tools_seed_eval.py <variant-dir with patch.diff + meta.json> <property> [--runs N] [--tier quick] [--props C01,C05] [--skip-confirm]
Prints a JSON summary line at the end. Never touches /repo.
"""
import json, os, shutil, subprocess, sys, tempfile, glob

def sh(cmd, cwd=None, env=None, timeout=3600):
    e = dict(os.environ); e.update(env or {})
    r = subprocess.run(cmd, shell=True, cwd=cwd, env=e, capture_output=True, text=True, timeout=timeout)
    return r.returncode, (r.stdout + r.stderr)

def main():
    vdir = os.path.abspath(sys.argv[1]); prop = sys.argv[2]
    args = sys.argv[3:]
    runs = None; props = [prop]; skip = False; tier = "quick"; save = None
    i = 0
    while i < len(args):
        if args[i] == "--runs": runs = args[i+1]; i += 2
        elif args[i] == "--props": props = args[i+1].split(","); i += 2
        elif args[i] == "--tier": tier = args[i+1]; i += 2
        elif args[i] == "--skip-confirm": skip = True; i += 1
        elif args[i] == "--save": save = args[i+1]; i += 2
        else: i += 1
    meta = json.load(open(os.path.join(vdir, "meta.json")))
    tmp = tempfile.mkdtemp(prefix="seedeval-")
    repo = os.path.join(tmp, "repo")
    shutil.copytree("/repo", repo, ignore=shutil.ignore_patterns(".git"))
    goenv = {"GOFLAGS": "-mod=mod", "GOPROXY": "off"}
    res = {"variant": vdir, "property": prop, "title": meta.get("title")}
    try:
        rc, out = sh(f"git apply --verbose {vdir}/patch.diff", cwd=repo)
        if rc != 0:
            rc, out = sh(f"patch -p1 < {vdir}/patch.diff", cwd=repo)
        res["applies"] = rc == 0
        if rc != 0:
            res["apply_output"] = out[-800:]
            print(json.dumps(res)); return
        if not skip:
            rc, out = sh("go build ./... && go test -vet=off -count=1 ./... 2>&1 | grep -v 'no test files'", cwd=repo, env=goenv)
            res["suite_passes_with_patch"] = ("FAIL" not in out) and rc == 0
            if not res["suite_passes_with_patch"]: res["suite_output"] = out[-1500:]
            # demo with patch
            placed = []
            for d in meta.get("demo_files", []):
                src = os.path.join(vdir, os.path.basename(d["file"]))
                if not os.path.exists(src):
                    c = glob.glob(os.path.join(vdir, "*_test.go")) + glob.glob(os.path.join(vdir, "*.go"))
                    src = c[0] if c else src
                dst = os.path.join(repo, d.get("place_in", "."), os.path.basename(src))
                os.makedirs(os.path.dirname(dst), exist_ok=True)
                shutil.copy(src, dst); placed.append(dst)
            import re as _re
            cmd = _re.sub(r"cp out/\S+ \S+ *&& *", "", meta.get("demo_cmd", ""))
            denv = dict(goenv); denv["GOSUMDB"] = "off"; denv["GOTOOLCHAIN"] = "local"
            cmd2 = cmd.replace("go1.26.8 ", "go ").replace("GOTOOLCHAIN=local ", "")
            # run demos with go1.26.8 (local toolchain) - works offline in every case
            cmd2 = "export PATH=/opt/veriftools/go1.26.8/bin:$PATH; " + cmd2
            rc1, out1 = sh(cmd2, cwd=repo, env=denv, timeout=1200)
            res["demo_fails_with_patch"] = rc1 != 0
            res["demo_with_patch_tail"] = out1[-600:]
            # revert library change, keep demo
            sh(f"git apply -R {vdir}/patch.diff || patch -R -p1 < {vdir}/patch.diff", cwd=repo)
            rc2, out2 = sh(cmd2, cwd=repo, env=denv, timeout=1200)
            res["demo_passes_without_patch"] = rc2 == 0
            if rc2 != 0: res["demo_without_patch_tail"] = out2[-600:]
            for f in placed: os.remove(f)
            sh(f"git apply {vdir}/patch.diff || patch -p1 < {vdir}/patch.diff", cwd=repo)
        # /verif checks
        res["checks"] = {}
        for p in props:
            outdir = os.path.join(tmp, "out-" + p)
            env = {"VERIF_REPO": repo, "VERIF_OUT": outdir, "GOFLAGS": "-mod=mod", "GOPROXY": "off", "GOSUMDB": "off", "GOTOOLCHAIN": "local"}
            cmd = f"/verif/bin/verifctl check {p} --tier {tier}" + (f" --runs {runs}" if runs else "")
            rc, out = sh(cmd, cwd="/verif", env=env, timeout=7200)
            sigs = [l.strip().split("signature: ")[1] for l in out.splitlines() if "signature: " in l]
            done = [l for l in out.splitlines() if l.startswith("done ")]
            res["checks"][p] = {"exit": rc, "signatures": sigs, "done": done[-1][:200] if done else out[-400:]}
            # keep the replay files of a detection next to the seed
            if rc == 1:
                keep = os.path.join(vdir, "replays-" + p)
                shutil.rmtree(keep, ignore_errors=True)
                if os.path.isdir(os.path.join(outdir, "replays", p)):
                    shutil.copytree(os.path.join(outdir, "replays", p), keep)
        print(json.dumps(res, indent=1))
        if save:
            dst = os.path.join("/verif/seeded", save)
            os.makedirs(dst, exist_ok=True)
            prev = {}
            if os.path.exists(os.path.join(dst, "meta.json")):
                try: prev = json.load(open(os.path.join(dst, "meta.json"))).get("verif_eval", {})
                except Exception: prev = {}
            for f in os.listdir(vdir):
                src = os.path.join(vdir, f)
                if os.path.isfile(src) and os.path.abspath(src) != os.path.abspath(os.path.join(dst, f)):
                    shutil.copy(src, os.path.join(dst, f))
            m = dict(meta)
            ev = dict(prev)
            ev.update({k: res[k] for k in res if k in ("applies", "suite_passes_with_patch", "demo_fails_with_patch", "demo_passes_without_patch")})
            ev.setdefault("checks", {}).update({p: {"cmd": f"VERIF_REPO=<copy of /repo with patch.diff applied> bin/verifctl check {p} --tier {tier}" + (f" --runs {runs}" if runs else ""), "exit": c["exit"], "detected": c["exit"] == 1, "signatures": c["signatures"], "summary": c["done"]} for p, c in res["checks"].items()})
            m["verif_eval"] = ev
            m["breaks_property"] = prop
            json.dump(m, open(os.path.join(dst, "meta.json"), "w"), indent=1)
    finally:
        shutil.rmtree(tmp, ignore_errors=True)

main()
